"""E3 driver: CrossHair 0.0.110 on PEP-316 harness modules that call the real valjean functions.

Every contract is checked in its own process under a hard timeout.  'Confirmed over all paths' =
holds within the pre: bounds; a counterexample is parsed from CrossHair's message and REPLAYED by
calling the harness function concretely in this interpreter; anything else is inconclusive.
"""
import os
import re
import sys
import ast
import subprocess
import importlib.util

VERIF = os.path.dirname(os.path.dirname(os.path.abspath(__file__)))


def functions_with_contracts(path):
    src = open(path).read()
    tree = ast.parse(src)
    out = []
    for node in tree.body:
        if isinstance(node, ast.FunctionDef):
            doc = ast.get_docstring(node) or ''
            if 'post:' in doc:
                out.append((node.name, node.lineno + 1))
    return out


def check_function(path, name, line, timeout_s):
    cmd = [os.path.join(VERIF, '.venv', 'bin', 'python'), '-m', 'crosshair', 'check', '--report_all',
           '--per_condition_timeout', str(timeout_s), f'{path}:{line}']
    env = dict(os.environ, PYTHONPATH=f'{VERIF}:/repo', PYTHONHASHSEED='0', PYTHONWARNINGS='ignore')
    try:
        r = subprocess.run(cmd, capture_output=True, text=True, timeout=timeout_s * 3 + 30, env=env)
        out = (r.stdout + r.stderr).strip()
    except subprocess.TimeoutExpired:
        return {'function': name, 'status': 'unknown', 'message': 'crosshair process timed out'}
    if 'Confirmed over all paths' in out:
        return {'function': name, 'status': 'confirmed', 'message': out[-300:]}
    m = re.search(r'error: (.*?) when calling (\w+)\(', out, re.S)
    if m:
        i = m.end()
        depth, j, instr = 1, i, None
        while j < len(out) and depth:
            c = out[j]
            if instr:
                if c == '\\':
                    j += 1
                elif c == instr:
                    instr = None
            elif c in '\'"':
                instr = c
            elif c in '([{':
                depth += 1
            elif c in ')]}':
                depth -= 1
            j += 1
        return {'function': name, 'status': 'counterexample', 'message': out[-600:], 'what': m.group(1),
                'args': out[i:j - 1]}
    return {'function': name, 'status': 'unknown', 'message': out[-400:] or 'no output'}


def load_module(path):
    spec = importlib.util.spec_from_file_location('ch_' + os.path.basename(path)[:-3], path)
    mod = importlib.util.module_from_spec(spec)
    spec.loader.exec_module(mod)
    return mod


def replay_counterexample(path, fn_name, args_text):
    """call the harness function with the counterexample's arguments and evaluate its post-condition"""
    mod = load_module(path)
    fn = getattr(mod, fn_name)
    import inspect
    ns = {'__builtins__': {}, 'float': float, 'chr': chr, 'dict': dict, 'list': list, 'tuple': tuple, 'set': set}
    pos, kw = eval(f'(lambda *a, **k: (a, k))({args_text})', ns)
    bound = inspect.signature(fn).bind(*pos, **kw)
    kwargs = dict(bound.arguments)
    doc = fn.__doc__ or ''
    raises = set()
    for ln in doc.splitlines():
        ln = ln.strip()
        if ln.startswith('raises:'):
            raises.update(x.strip() for x in ln[7:].split(','))
    try:
        ret = fn(**kwargs)
    except Exception as e:    # noqa
        if type(e).__name__ in raises:
            return None
        return f'{fn_name}({args_text}) raised {type(e).__name__}: {e}'
    posts = [ln.strip()[5:].strip() for ln in doc.splitlines() if ln.strip().startswith('post:')]
    for p in posts:
        ok = eval(p, dict(vars(mod), _=ret, __return__=ret, **kwargs))
        if not ok:
            return f'{fn_name}({args_text}) returned {ret!r}: post-condition {p!r} is false'
    return None
