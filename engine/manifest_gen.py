#!/usr/bin/env python3
"""Regenerate /verif/MANIFEST.json from the table below (kept in one place so that the
manifest stays valid and in step with the checks that exist)."""
import json, os
VERIF = os.path.dirname(os.path.dirname(os.path.abspath(__file__)))

TS_NOTE = ('Trusted base: z3 5.1 (QF_BV); the extraction (symrun) and its stub primitives with the blocking semantics listed in the evidence; the Lipton-reduction / partial-order-reduction arguments; replay harness. Bounded: listed graphs (<= 3 tasks), <= 2 workers (3-task graphs: one worker), depth K = 22+11N+6W (first K steps of every run; the thorough tier establishes by an unwinding query that every run is complete within K for one worker and graphs with <= 2 tasks or without soft edges).')

SYM_NOTE = ('Trusted base: z3 5.1; the symrun proxies (extended-real algebra: exact reals + IEEE special values, '
            'no rounding); numpy for shape bookkeeping; stubs and assumptions listed in the evidence file. '
            'Bounded: only the shapes/sizes/lengths listed under coverage.bounds are covered.')

CHECKS = {
 'C08': dict(technique='bounded symbolic execution of the real Dataset arithmetic (symrun + z3 QF_NRA), per-path SMT queries',
             text='Every clause (value = array operation, first-order error formula, error >= 0, shape, bins kept, operands '
                  'unchanged, copy independent) is decided by z3 for ALL finite values/errors of the listed shapes (NumPy scalar factors and a right '
                  'operand with bins next to a left one without included; mask chains with a model of every intermediate result) on every '
                  'feasible path of the real code; counterexamples are replayed in float64. Bounded by shape and chain length. One concrete float-level job: awkward constants, float64 / float32 / integer datasets, values compared bit for bit with the NumPy operation.',
             design='DESIGN.md section 4 C08'),
 'C09': dict(technique='bounded symbolic execution of the real slicing code (symrun + z3): LIA over unbounded symbolic start/stop for the bins index arithmetic; forked concretisation for numpy indexing end to end',
             text='(A) for every integer/None start and stop (unbounded) and 1..5(8) cells per axis z3 decides that the real '
                  '_get_bins_items/_get_bins_slice select exactly the edges/centres of the retained cells; (B) real __getitem__ '
                  'end to end on arrays of distinct symbolic cells for every start/stop of a stated range; (C) squeeze. '
                  'Counterexamples are replayed on plain numpy arrays.',
             design='DESIGN.md section 4 C09'),
 'C05': dict(technique='bounded symbolic execution of the real Student test (symrun + z3 QF_NRA); scipy laws as uninterpreted functions with monotonicity/symmetry/quantile axioms; differential against the statement formula',
             text='For every extended-real cell (finite, NaN, +-inf), alpha in (0,1) and any ndf, on every path of the real code z3 decides '
                  'verdict <=> all bins compatible, oracles()/p-value decision/test_pvalue() == per-bin formula, plus relational twins '
                  '(symmetry, rescaling, monotonicity) as two executions inside one query. Bounded by shape/number of datasets. One extra job runs '
                  'concrete extreme significance levels (down to 1e-300) against an accurate reference, another one equal values with tiny / huge errors: floating point is outside the real-number model.',
             design='DESIGN.md section 4 C05'),
 'C06': dict(technique='bounded symbolic execution of the real Bonferroni/Holm-Bonferroni code (symrun + z3 LRA; QF_NRA with law stubs for Student-based jobs); argsort as a solver-chosen sorting permutation',
             text='For every p-value array (reals in [0,1] or NaN, ties included) of the listed shapes and every alpha, on every path and for every '
                  'tie-breaking argsort may choose, z3 decides flags, levels, counts, verdicts, the Bonferroni=>Holm implication, '
                  'permutation/reshape invariance (C- and Fortran-ordered arrays), Student-pass => both pass, and independence from an earlier application of both corrections at another (symbolic) level in the same process. Bounded by m <= 4 bins.',
             design='DESIGN.md section 4 C06'),
 'C07': dict(technique='bounded symbolic execution of the real chi-square test (symrun + z3 QF_NRA, uninterpreted chi-square law); zero-error mask concretised by solver-driven forking',
             text='For every extended-real cell, every zero-error pattern, alpha in (0,1), both option settings, on every path z3 decides: '
                  'statistic == sum over used bins, ndf == number of used bins, p-value == sf(statistic, ndf), verdict <=> all p > alpha, '
                  'order independence, undefined statistic never passes. Bounded by <= 4 bins. One concrete float-level job: integer-typed datasets (exact rational reference) and errors whose squares underflow.',
             design='DESIGN.md section 4 C07'),
 'C17': dict(technique='bounded symbolic execution of the real Browser/Index code (symrun + z3) with symbolic-equality keys: dict/set partition metadata values by solver-decided equality; differential against the naive scan',
             text='For item lists of <= 3 (4) items over <= 2 metadata keys (3 keys, 2-3 items, for queries with three keyword criteria) with ARBITRARY hashable values (only equality observable), all '
                  'presence patterns, queries, include/exclude sets and 1-2 step chains, on every path (one per feasible equality pattern) the '
                  'result items/order/data identity/globals/data_key, select_by exceptions, merge and immutability of browsers and inputs are decided; '
                  'plus lists of 10 (13) items with concrete values and every subset matching (order of the selection), the data key named in '
                  'include / exclude, item-less merge operands carrying globals, queries on the documented position key (index) of built, filtered and merged browsers.',
             design='DESIGN.md section 4 C17'),
 'C16': dict(technique='bounded-exhaustive symbolic execution of the real DepGraph/RList code (symrun, z3 decides fork feasibility): inductive step = one or two operations with solver-chosen arguments from every valid state of the bound, compared with a set model',
             text='From EVERY representation state over <= 3 (4) nodes (4 nodes in the quick tier too for transitive reduction / closure / topological sort; symbolic edge matrix) every public operation with every argument choice is '
                  'executed; representation invariant, nodes/dependencies/dependees/iteration/==/<=, independence of copies and inverses, '
                  'topological sort, transitive reduction/closure and flatten (nested graphs incl. empty and two-level ones, nested objects left unmodified), '
                  'edge edits after a merge, are compared with the mathematical model. '
                  'Containers hash by identity so each path is one concrete state: exhaustive within the bound, not beyond.',
             design='DESIGN.md section 4 C16'),
 'C18': dict(technique='bounded symbolic execution of the real diagnostic statistics code (symrun + z3): symbolic verdicts, symbolic-equality label values partitioned by the real index, solver-chosen statuses/selections; differential against direct counting',
             text='For <= 3 (4) tasks/results with every status, result pattern, symbolic verdict, label presence pattern and ARBITRARY label values '
                  '(equality/order only), every ordered label selection: each task/result counted once under its status/verdict, MISSING tasks, '
                  'OK+KO=total=results carrying the labels, nb_missing_labels, oracles and verdicts are decided on every path; plus three-level selections, '
                  'labels named like reserved keys, and concrete label values of different types (None, text, number); the verdict of the task and test '
                  'summaries is asked again after the report has shown them.',
             design='DESIGN.md section 4 C18'),
 'C01': dict(engine='threadsym', category='model_checking', note=TS_NOTE,
             technique='per-thread automata extracted from the real scheduler code by symbolic execution between synchronisation points; z3 bounded model checking (QF_BV) with the interleaving, task outcomes and clock instants as solver variables; counterexamples replayed on real threads',
             text='For each listed graph/worker count, ONE z3 query over ALL interleavings (schedule = solver variables), all 11 task outcome kinds and all '
                  'clock readings decides that no task starts before every dependency is final and its update is readable. The automata are regenerated '
                  'from /repo on every run; a counterexample is a concrete schedule that is replayed on the real code with real threads. One symrun job '
                  'reduces graphs that hold a nested (possibly empty) dependency graph as a node to those plain-task graphs: what Scheduler.__init__ hands '
                  'to the back end keeps every ordering the given hard / soft edges imply (5832 labelled graphs).',
             design='DESIGN.md sections 2.2, 4 C01, 9.5'),
 'C02': dict(engine='threadsym', category='model_checking', note=TS_NOTE,
             technique='extracted thread automata + z3 bounded model checking over all interleavings (QF_BV); final status map compared with a recursive specification F(graph, outcomes); replay on real threads',
             text='For each listed graph/worker count one query per clause over all interleavings and outcome kinds: no task executed twice; at '
                  'termination the status map equals F(graph, outcomes) (hence is schedule independent), skipped tasks never executed. One symrun job on Scheduler.__init__ (graphs holding a nested, possibly empty, graph as a node): the hard graph handed to the back end orders two tasks exactly when the given hard edges do.',
             design='DESIGN.md sections 2.2, 4 C02'),
 'C03': dict(engine='threadsym', category='model_checking', note=TS_NOTE,
             technique='extracted thread automata + z3 bounded model checking over all interleavings (QF_BV) from a solver-chosen initial environment; deadlock / lost wake-up / leaked worker as a quiescence predicate; work queue handed back pristine (induction over calls on one scheduler object); unwinding query bounds every run where it is within reach (thorough); replay on real threads',
             text='For each listed graph (cyclic ones included), worker count, outcome kinds and arbitrary initial entries (DONE/FAILED/SKIPPED of earlier runs, WAITING/PENDING left by a killed run): no '
                  'reachable state in which nothing can move while a started thread has not finished (covers lost wake-ups, dead workers, workers '
                  'left blocked after the master returned or raised); thorough tier additionally proves every run ends within K steps.',
             design='DESIGN.md sections 2.2, 4 C03'),
 'C04': dict(engine='threadsym', category='model_checking', note=TS_NOTE,
             technique='inductive step over run histories: extracted thread automata + z3 bounded model checking (QF_BV) of ONE run from an arbitrary persisted environment satisfying the carry-over invariant; replay on real threads',
             text='One run from EVERY persisted environment allowed by the documented carry-over (solver-chosen entries and clocks): at termination no '
                  'DONE task has a DONE dependency that finished after it started or a failed hard dependency (also when the persisted clocks contradict the '
                  'current graph: dependency edges added between runs), and an up-to-date task is neither '
                  're-executed nor modified. Composes over histories of any length.',
             design='DESIGN.md sections 2.2, 4 C04'),
 'C14': dict(technique='bounded symbolic execution of the real persistence code (symrun + z3) against fault-injecting stubs of open() and pickle: statuses, crash point of the write phase, errno values and the exception raised by a damaged file are solver-chosen',
             text='For <= 2 (3) tasks with every status / output_dir pattern, older files on disk, every write fault (open fails, crash leaving an empty '
                  'or truncated file, crash while the entry is serialised -- into the file or into memory first) and read fault (errno symbolic, garbage) and EVERY exception of the unpickling contract: read_env never raises and '
                  'returns exactly the intact DONE entries as written; plus a job with the REAL pickle on a real directory (payload plain / array / containing '
                  'an Env, written once or twice).',
             design='DESIGN.md section 4 C14'),
 'C19': dict(technique='bounded symbolic execution of the real command runner (symrun + z3 LIA) with symbolic exit statuses and start-up failures; z3 string theory on the real sanitize_filename for task names of any length',
             text='For <= 3 (4) command lines with ARBITRARY integer exit statuses (negative included) and a start-up failure at any position: DONE iff '
                  'all zero, stop at first non-zero, recorded codes = codes of commands run, captured streams intact and in order, output directory '
                  'of the task, also on a second execution under the same output root; CheckoutTask and BuildTask stop at their first failing step; '
                  'for EVERY task name (unbounded string): accepted names are exactly one non-empty path component.',
             design='DESIGN.md section 4 C19'),
 'C20': dict(technique='bounded symbolic execution of the real report writer (symrun + z3: solver-chosen tree shapes and titles from a pool with reserved/invalid/dotted/repeated names) on a temporary directory, pages read back',
             text='For every report tree of <= 3 (4) sections of any shape with titles from the pool: one page per section at the path of its titles, '
                  'root page intact, every result exactly once on its page, every toctree entry resolves, every referenced figure exists (figure rendering '
                  'stubbed; sequential or pooled writing; a second output directory; another report formatted in between), and a tree containing an '
                  'unusable or reserved title is rejected before anything is written.',
             design='DESIGN.md section 4 C20'),
 'C15': dict(technique='bounded symbolic execution (symrun + z3: solver-chosen request histories) of the real Use / RunTaskFactory / close_dependency_graph code against its process-wide caches; returned tasks executed with tagged callables',
             text='For every history of 2 (3) wrapper requests / 3 (4) factory requests over the listed alphabets and every hard/soft graph on <= 3 (4) '
                  'tasks: identical requests share a task, different requests never do (two known cache-key findings excluded by signature), each task '
                  'runs its own function / command line with its own dependencies (factories made without, with hard, with hard and soft dependencies; copies of them), closure / collect_tasks return every transitive dependency once; plus '
                  'wrappers of wrappers and sibling factories (different default keywords, or two executables of one build task) with a wrapper on each run task.',
             design='DESIGN.md section 4 C15'),
 'C12': dict(technique='bounded symbolic execution (symrun + z3: solver-chosen result kinds, failing-bin patterns as symbolic booleans, verbosities, slices) of the real table representers, TableTemplate and RstTable formatter',
             text='For every result kind with a built-in representation, every failing-bin pattern of the listed shapes, all 6 verbosities and both table '
                  'representers: a highlight/KO mark appears iff the result is false; detailed tables highlight exactly the failing bins and show their '
                  'values (template level and text level); metadata tables show each sample under its own header cell by cell; highlight masks and columns have equal lengths; slicing (steps 1, 2, -1, -2) / joining (synthetic tables and the tables '
                  'of two results of one kind) keeps them aligned; EVERY produced table is parsed back with docutils on every path: valid reStructuredText, '
                  'cells and highlights equal to the template.',
             design='DESIGN.md section 4 C12'),
 'C13': dict(technique='bounded symbolic execution (symrun + z3: solver-chosen result kinds, failing patterns, verbosities and SEQUENCES of read-only operations) with deep structural snapshots',
             text='For every result kind, failing pattern and every sequence of 2 (3) operations out of bool, oracles, counts, table/plot/full '
                  'representation at any verbosity, rst formatting, fingerprint, deepcopy, pickle: verdict, recorded statistics (dictionary key sets '
                  'included) and input datasets are identical before and after; evaluating twice gives identical results and leaves the observed results '
                  'unchanged; cells may be NaN, arrays big-endian, names non-alphabetical, and user-made (external) results with units are included; '
                  'a Student test gives the decisions of the scipy quantile whatever test with a nearby significance level was evaluated before it; drawing a '
                  'plot template of any plot type with matplotlib leaves its data unchanged.',
             design='DESIGN.md section 4 C13'),
 'C10': dict(technique='bounded-exhaustive symbolic execution (symrun + z3 as enumerator of solver-chosen file layouts) of the real Tripoli-4 reader on synthetic listings and of the real Apollo3 Reader/Picker on synthetic HDF5 files, both built around ground truth; numbers are concrete tags',
             text='PARTIAL. Tripoli-4: for every synthetic listing of the bound (1-2(3) spectrum responses, 1-3(4) energy groups, optional time steps / mu '
                  'zones, every printing order per dimension, zero/negative special value at every cell, the energy-integrated results of every step, a '
                  'sigma printed as zero; scores on a small mesh; sensitivity profiles; a KEFFS response with partially converged lines) the datasets returned by '
                  'Parser(...).to_browser() carry each printed score in the cell of its printed boundaries, error = value*sigma%/100 and increasing bins. '
                  'Apollo3: for every standard-layout HDF5 file of the bound (1-2 outputs, 1-2 groups, 1-2 zones, every per-output isotope list over 3 '
                  'isotopes) Reader(...).to_browser() and every single Picker pick return the stored arrays under the right labels. The pyparsing / float() / '
                  'h5py front ends run concretely (they cannot be executed symbolically): the solver only chooses the layout.',
             note='Trusted base: the listing / HDF5 generators (layouts copied from a shipped listing and from the documented Apollo3 data model). '
                  'Not covered: Green bands / IFP / perturbation layouts, other Apollo3 data models. Enumeration within the bound, stated as such.',
             design='DESIGN.md section 4 C10, section 5 and 9.5'),
 'C11': dict(technique='bounded-exhaustive symbolic execution (symrun + z3 enumerating a symbolic cut offset) of the real Scanner/Parser on shipped listings truncated at every byte of the stated ranges',
             text='For EVERY byte offset of the parallel-mode example listing and every byte of every scanner-interpreted line (and of the line after it) of three sequential listings: '
                  'Scanner raises only ScannerException, Parser() only ParserException, never hangs (60 s alarm); at sampled offsets the last complete '
                  'edition parses to the same results as in the complete listing; one path rewritten with three states of a listing (every order, modification time free or forced equal) '
                  'gives after every rewrite the outcome of the same bytes under a fresh path. Grammar behaviour on blocks the scanner never delivers is outside.',
             design='DESIGN.md section 4 C11'),
}

NOT_YET = {}

def main():
    props = [json.loads(l) for l in open(os.path.join(VERIF, 'properties.jsonl'))]
    checks = []
    na = []
    for p in props:
        pid = p['id']
        c = CHECKS.get(pid)
        if c is None:
            na.append({'property_id': pid, 'reason': NOT_YET.get(pid, 'check not built yet in this round (planned, see DESIGN.md section 4)')})
            continue
        checks.append({
            'property_id': pid,
            'quick_cmd': f'./bin/check {pid} --tier quick',
            'thorough_cmd': f'./bin/check {pid} --tier thorough',
            'evidence_file': f'/verif/evidence/{pid}.json',
            'replay_cmd_template': f'./bin/check {pid} --replay {{path}}',
            'engine': c.get('engine', 'symrun'),
            'level_claimed': {'category': c.get('category', 'other'), 'text': c['text'], 'design_ref': c['design']},
            'level_note': c.get('note', SYM_NOTE),
            'technique': c['technique'],
        })
    m = {
        'version': 1,
        'setup_cmd': './bin/setup.sh',
        'hooks': {'guard': 'VALJEAN_VERIF', 'enable': 'no source hooks: all instrumentation is monkey-patching from the harnesses; checks export VALJEAN_VERIF=1 (unused by /repo)',
                  'baseline_off_cmd': 'cd /repo && /venv/bin/python -m pytest -ra -q -p no:cacheprovider --timeout=900 --continue-on-collection-errors',
                  'source_commits': [], 'add_only': True},
        'engines': [
            {'name': 'symrun', 'path': 'engine/symrun', 'serves_properties': sorted(k for k, v in CHECKS.items() if v.get('engine', 'symrun') == 'symrun'),
             'kind_free_text': 'own forking symbolic executor for real Python/numpy code on z3-backed proxies (SBool/SInt/SReal/SymArray); one SMT query per path and asserted clause; counterexamples replayed concretely'},
            {'name': 'threadsym', 'path': 'engine/threadsym', 'serves_properties': sorted(k for k, v in CHECKS.items() if v.get('engine') == 'threadsym'),
             'kind_free_text': 'per-thread automata extracted from the real scheduler code by symbolic execution between synchronisation points; z3 bounded model checking with the interleaving as solver variables; replay on real threads'},
            {'name': 'crosshair', 'path': 'engine/chrun.py', 'serves_properties': sorted(k for k, v in CHECKS.items() if v.get('engine') == 'crosshair'),
             'kind_free_text': 'CrossHair 0.0.110 (symbolic execution of Python with z3) on PEP-316 harnesses calling the real functions'},
        ],
        'checks': checks,
        'not_applicable': na,
        'notes': 'All checks: ./bin/check <id> --tier quick|thorough; exit 0 held, 1 VIOLATION (replayed counterexample), 3 inconclusive (never reported as success). See DESIGN.md.',
    }
    with open(os.path.join(VERIF, 'MANIFEST.json'), 'w') as f:
        json.dump(m, f, indent=1)
    import jsonschema
    jsonschema.validate(m, json.load(open('/root/.vp/MANIFEST.schema.json')))
    print('MANIFEST.json written:', len(checks), 'checks,', len(na), 'not applicable')

if __name__ == '__main__':
    main()
