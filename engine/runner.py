"""Common driver for all checks: jobs in parallel, replay, known findings, evidence, exit code.

A check module (``/verif/checks/Cxx.py``) defines

    PID       = 'C08'
    LEVEL     = 'other' | 'model_checking'
    TARGETS   = ['valjean.eponine.dataset:Dataset.__add__', ...]   functions encoded
    BOUNDS    = {...}, ASSUMPTIONS = [...]
    def jobs(tier): -> list of Job

A Job is (name, callable(params) -> JobResult, params).  Jobs run in worker processes.
"""
import os
import sys
import json
import time
import hashlib
import inspect
import importlib
import traceback
import multiprocessing as mp

VERIF = os.path.dirname(os.path.dirname(os.path.abspath(__file__)))
REPO = os.environ.get('VERIF_TREE', '/repo')

EXIT_OK, EXIT_VIOLATION, EXIT_INCONCLUSIVE = 0, 1, 3


# --------------------------------------------------------------------------- known findings
def known_findings():
    p = os.path.join(VERIF, 'known_findings.json')
    if not os.path.exists(p):
        return []
    with open(p) as f:
        return json.load(f)


def known_active(fid):
    """True iff finding `fid` is listed with kind 'known' (not 'fixed')."""
    return any(e.get('id') == fid and e.get('kind') == 'known' for e in known_findings())


# --------------------------------------------------------------------------- job results
class JobResult:
    def __init__(self, name):
        self.name = name
        self.stats = {}
        self.violations = []      # [{'label','inputs','detail','job'}] -- replayed, reproduce
        self.inconclusive = []    # [str]
        self.known = []           # [(fid, text)] known findings re-confirmed
        self.samples = []
        self.extra = {}
        self.wall_s = 0.0

    def to_json(self):
        return self.__dict__


def run_sym(name, harness, *, timeout_ms=20000, max_paths=200000, seed=0, deadline_s=None,
            require_checks=(), max_failures=12, expect_paths_min=1, logic=None):
    """Explore `harness` symbolically; replay each counterexample concretely (same harness,
    real values, real libraries); return a JobResult."""
    from engine.symrun.core import Explorer, Concrete
    t0 = time.time()
    res = JobResult(name)
    ex = Explorer(query_timeout_ms=timeout_ms, max_paths=max_paths, seed=seed,
                  stop_at_first=False, max_failures=max_failures, logic=logic,
                  deadline=(t0 + deadline_s) if deadline_s else None)
    ex.explore(harness)
    res.stats = ex.stats.to_json()
    res.samples = ex.stats.samples[:3]
    res.inconclusive = list(dict.fromkeys(ex.inconclusive))
    seen = set()
    for f in ex.failures:
        c = Concrete(f.inputs).run(harness)
        labels = [x.label for x in c.failures if x.label != 'replay-left-the-assumptions']
        if labels:
            key = (f.label, json.dumps(f.inputs, sort_keys=True, default=str))
            if key in seen:
                continue
            seen.add(key)
            det = f.detail
            for x in c.failures:
                if x.kind == 'exception':
                    det = x.detail
            res.violations.append({'job': name, 'label': f.label, 'replay_labels': labels,
                                   'inputs': f.inputs, 'detail': det})
        else:
            res.inconclusive.append(f'counterexample for {f.label!r} did not reproduce on the '
                                    f'real code: {json.dumps(f.inputs, default=str)[:400]}')
    # vacuity: the harness must have reached its checks on at least one feasible path
    if ex.stats.paths < expect_paths_min and not ex.failures:
        res.inconclusive.append(f'vacuous: only {ex.stats.paths} feasible paths')
    for lab in require_checks:
        if ex.stats.checks.get(lab, 0) == 0 and not ex.failures:
            res.inconclusive.append(f'vacuous: check {lab!r} never reached')
    res.wall_s = time.time() - t0
    return res


def replay_sym(harness, inputs):
    from engine.symrun.core import Concrete
    c = Concrete(inputs).run(harness)
    return [(x.label, x.detail) for x in c.failures if x.label != 'replay-left-the-assumptions']


# --------------------------------------------------------------------------- targets
def describe_targets(targets):
    out = []
    for spec in targets:
        modname, _, qual = spec.partition(':')
        try:
            mod = importlib.import_module(modname)
            obj = mod
            for part in qual.split('.'):
                if part:
                    obj = inspect.getattr_static(obj, part) if inspect.isclass(obj) else getattr(obj, part)
            while isinstance(obj, (staticmethod, classmethod, property)):
                obj = obj.__func__ if not isinstance(obj, property) else obj.fget
            src, line = inspect.getsourcelines(obj)
            out.append({'function': spec, 'file': inspect.getsourcefile(obj),
                        'lines': [line, line + len(src) - 1],
                        'sha256': hashlib.sha256(''.join(src).encode()).hexdigest()[:16]})
        except Exception as e:  # noqa
            out.append({'function': spec, 'error': f'{type(e).__name__}: {e}'})
    return out


# --------------------------------------------------------------------------- main
def _worker(args):
    modname, jobname, tier, seed = args
    import warnings
    import logging
    warnings.filterwarnings('ignore')
    logging.disable(logging.CRITICAL)      # logging/formatting: empty bodies (not the subject)
    t0 = time.time()
    try:
        mod = importlib.import_module(modname)
        for j in mod.jobs(tier):
            if j[0] == jobname:
                r = j[1](**dict(j[2], seed=seed) if 'seed' in inspect.signature(j[1]).parameters else j[2])
                r.wall_s = time.time() - t0
                r.name = jobname
                for v in r.violations:
                    v['job'] = jobname
                return r.to_json()
        raise KeyError(jobname)
    except BaseException as e:   # noqa
        r = JobResult(jobname)
        r.inconclusive.append(f'harness error: {type(e).__name__}: {e}\n{traceback.format_exc(limit=-8)}')
        r.wall_s = time.time() - t0
        return r.to_json()


def main(argv=None):
    import argparse
    ap = argparse.ArgumentParser()
    ap.add_argument('pid')
    ap.add_argument('--tier', default=os.environ.get('VERIF_TIER', 'quick'), choices=['quick', 'thorough'])
    ap.add_argument('--replay')
    ap.add_argument('--jobs', type=int, default=int(os.environ.get('VERIF_JOBS', '16')))
    ap.add_argument('--only', help='substring filter on job names (debugging)')
    ap.add_argument('--no-evidence', action='store_true')
    a = ap.parse_args(argv)
    seed = int(os.environ.get('VERIF_SEED', '0') or 0)
    import warnings
    warnings.filterwarnings('ignore')
    import valjean
    assert os.path.realpath(valjean.__file__).startswith(REPO + '/'), valjean.__file__
    modname = f'checks.{a.pid}'
    mod = importlib.import_module(modname)

    if a.replay:
        with open(a.replay) as f:
            rp = json.load(f)
        out = mod.replay(rp)
        if out:
            print(f'replay reproduces: {out}')
            return EXIT_VIOLATION
        print('replay does not reproduce')
        return EXIT_OK

    t0 = time.time()
    joblist = mod.jobs(a.tier)
    if a.only:
        joblist = [j for j in joblist if a.only in j[0]]
    work = [(modname, j[0], a.tier, seed) for j in joblist]
    results = []
    if a.jobs <= 1 or len(work) <= 1:
        results = [_worker(w) for w in work]
    else:
        ctx = mp.get_context('fork')
        with ctx.Pool(min(a.jobs, len(work)), maxtasksperchild=1) as pool:
            for r in pool.imap_unordered(_worker, work, chunksize=1):
                results.append(r)
                if os.environ.get('VERIF_PROGRESS'):
                    print(f'  done {r["name"]} {r["wall_s"]:.0f}s ({len(results)}/{len(work)})', file=sys.stderr, flush=True)
    results.sort(key=lambda r: r['name'])
    wall = time.time() - t0

    violations = [v for r in results for v in r['violations']]
    inconcl = [f"{r['name']}: {m}" for r in results for m in r['inconclusive']]
    known = [k for r in results for k in r['known']]

    # evidence
    agg = {}
    for r in results:
        for k, v in (r['stats'] or {}).items():
            if isinstance(v, (int, float)):
                agg[k] = agg.get(k, 0) + v
            elif isinstance(v, dict):
                d = agg.setdefault(k, {})
                for kk, vv in v.items():
                    d[kk] = d.get(kk, 0) + vv
    samples = []
    for r in results:
        for s in r['samples'][:1]:
            if len(samples) < 6:
                samples.append({'job': r['name'], 'solver_model_of_a_feasible_path': s})
    if not samples:
        samples = [{'job': r['name'], 'stats': r['stats']} for r in results[:3]]
    level = getattr(mod, 'LEVEL', 'other')
    n_paths = int(agg.get('paths', 0))
    cov = {
        'explanation': getattr(mod, 'EXPLANATION', '') or
        'bounded symbolic execution of the real code; per-path SMT (z3) decision of pc /\\ not property',
        'evaluations': int(agg.get('solver_queries', 0)) or len(results),
        'distinct_nontrivial': n_paths,
        'rule': 'evaluations = SMT queries discharged; distinct_nontrivial = feasible symbolic paths '
                '(distinct path conditions) through the real code on which every asserted property '
                'was decided',
        'samples': samples,
        'functions_encoded': describe_targets(getattr(mod, 'TARGETS', [])),
        'bounds': (getattr(mod, 'BOUNDS', {}) or {}).get(a.tier, getattr(mod, 'BOUNDS', {})),
        'outside_the_claim': getattr(mod, 'OUTSIDE', []),
        'solver': {k: agg.get(k) for k in ('solver_queries', 'sat', 'unsat', 'unknown', 'solver_seconds')},
        'paths': n_paths, 'paths_aborted_infeasible': int(agg.get('paths_aborted', 0)),
        'checks_reached': agg.get('checks_reached', {}),
        'checks_unsat': agg.get('checks_unsat', {}),
        'jobs': [{'name': r['name'], 'wall_s': round(r['wall_s'], 2), 'stats': r['stats'],
                  'extra': r.get('extra') or {}} for r in results],
        'inconclusive': inconcl,
        'known_findings_confirmed': known,
        'counterexamples_replayed': len(violations),
    }
    for k, v in (getattr(mod, 'extra_coverage', lambda results, tier: {})(results, a.tier) or {}).items():
        cov[k] = v
    ev = {'property_id': a.pid, 'tier': a.tier, 'seed': seed, 'level': level, 'coverage': cov,
          'assumptions': getattr(mod, 'ASSUMPTIONS', []), 'wall_s': round(wall, 2),
          'violations': len(violations)}
    if not a.no_evidence and not a.only:
        os.makedirs(os.path.join(VERIF, 'evidence'), exist_ok=True)
        with open(os.path.join(VERIF, 'evidence', f'{a.pid}.json'), 'w') as f:
            json.dump(ev, f, indent=1, default=str)

    for fid, text in known:
        print(f'KNOWN-FINDING: property={a.pid} {fid}: {text}')
    print(f'[{a.pid} {a.tier}] jobs={len(results)} paths={n_paths} queries={cov["evaluations"]} '
          f'unsat={agg.get("unsat", 0)} sat={agg.get("sat", 0)} unknown={agg.get("unknown", 0)} '
          f'solver_s={agg.get("solver_seconds", 0):.1f} wall_s={wall:.1f}')
    slow = sorted(results, key=lambda r: -r['wall_s'])[:3]
    print('  slowest jobs: ' + ', '.join(f'{r["name"]} {r["wall_s"]:.0f}s' for r in slow))
    if violations:
        print('violated labels:', sorted({v['label'] for v in violations}))
        d = os.path.join(VERIF, 'replays', a.pid)
        os.makedirs(d, exist_ok=True)
        for old in os.listdir(d):
            if old.startswith(a.tier + '-'):
                os.remove(os.path.join(d, old))
        for i, v in enumerate(violations[:10]):
            p = os.path.join(d, f'{a.tier}-{i}.json')
            with open(p, 'w') as f:
                json.dump(v, f, indent=1, default=str)
            print(f'VIOLATION property={a.pid} replay={p}')
            print(f'  job={v["job"]} label={v["label"]} detail={str(v.get("detail", ""))[:300]}')
        return EXIT_VIOLATION
    if inconcl:
        for m in inconcl[:20]:
            print('INCONCLUSIVE:', m[:1500])
        return EXIT_INCONCLUSIVE
    print(f'OK property={a.pid}: held on everything explored')
    return EXIT_OK
