"""symrun core: forking symbolic execution of real Python code with z3.

A *harness* is an ordinary Python function ``h(ex)`` that creates symbolic inputs through
``ex`` (an :class:`Explorer` in symbolic mode, a :class:`Concrete` in replay mode), calls
real valjean code and ends with ``ex.check(cond, label)`` calls.

Symbolic values are proxy objects wrapping z3 terms; every data-dependent branch
(``bool()`` of a proxy, ``__index__``, ``__hash__``) asks the explorer, which forks by
re-executing the harness with a longer decision prefix (as CrossHair does).  One z3 query
``pc /\\ not prop`` is discharged per path and per asserted property.
"""
import time
import itertools
import fractions
import math
import z3

CUR = None        # the active Explorer (symbolic mode) or None


class PathAbort(BaseException):
    """Current path is infeasible or was cut by an assumption."""
    def __init__(self, *a):
        super().__init__(*a)
        if CUR is not None:
            CUR.path_dead = True


class UnsupportedSymbolic(BaseException):
    """The code under analysis used an operation the proxies do not model."""


class ReplayEnd(BaseException):
    """Replay reached the point where the recorded symbolic path stopped."""


class PathTimeout(BaseException):
    """The code under analysis did not return within the per-path wall-clock limit (a hang)."""


import signal
import contextlib


@contextlib.contextmanager
def path_alarm(seconds):
    """raise PathTimeout in the main thread if the body runs longer than `seconds`"""
    if not seconds or not hasattr(signal, 'setitimer'):
        yield
        return

    def handler(signum, frame):
        raise PathTimeout(f'no result after {seconds} s (hang?)')
    try:
        old = signal.signal(signal.SIGALRM, handler)
    except ValueError:          # not in the main thread
        yield
        return
    signal.setitimer(signal.ITIMER_REAL, seconds)
    try:
        yield
    finally:
        signal.setitimer(signal.ITIMER_REAL, 0)
        signal.signal(signal.SIGALRM, old)


class Budget(BaseException):
    """Exploration budget exhausted."""


# --------------------------------------------------------------------------- helpers
def _is_true(t):
    return t is True or (z3.is_expr(t) and z3.is_true(t))


def _is_false(t):
    return t is False or (z3.is_expr(t) and z3.is_false(t))


def zbool(x):
    """Python bool / SBool / z3 Bool -> z3 Bool or Python bool."""
    if isinstance(x, SBool):
        return x.t
    if isinstance(x, (bool,)):
        return x
    if z3.is_expr(x):
        return x
    import numpy as np
    if isinstance(x, np.bool_):
        return bool(x)
    raise TypeError(f'not a boolean: {x!r}')


def And(*xs):
    out = []
    for x in xs:
        x = zbool(x)
        if _is_false(x):
            return False
        if _is_true(x):
            continue
        out.append(x)
    if not out:
        return True
    return out[0] if len(out) == 1 else z3.And(*out)


def Or(*xs):
    out = []
    for x in xs:
        x = zbool(x)
        if _is_true(x):
            return True
        if _is_false(x):
            continue
        out.append(x)
    if not out:
        return False
    return out[0] if len(out) == 1 else z3.Or(*out)


def Not(x):
    x = zbool(x)
    if _is_true(x):
        return False
    if _is_false(x):
        return True
    return z3.Not(x)


def Implies(a, b):
    return Or(Not(a), b)


def Xor(a, b):
    a, b = zbool(a), zbool(b)
    if isinstance(a, bool):
        return Not(b) if a else b
    if isinstance(b, bool):
        return Not(a) if b else a
    return z3.Xor(a, b)


def If(c, a, b):
    """ITE on z3 arithmetic terms / python numbers with constant folding."""
    c = zbool(c)
    if _is_true(c):
        return a
    if _is_false(c):
        return b
    if not z3.is_expr(a) and not z3.is_expr(b) and a == b:
        return a
    if isinstance(a, bool) or isinstance(b, bool) or \
            (z3.is_expr(a) and z3.is_bool(a)) or (z3.is_expr(b) and z3.is_bool(b)):
        a = z3.BoolVal(a) if isinstance(a, bool) else a
        b = z3.BoolVal(b) if isinstance(b, bool) else b
        return z3.If(c, a, b)
    if not z3.is_expr(a):
        a = _num(a, b)
    if not z3.is_expr(b):
        b = _num(b, a)
    if z3.is_int(a) and z3.is_real(b):
        a = z3.ToReal(a)
    if z3.is_real(a) and z3.is_int(b):
        b = z3.ToReal(b)
    return z3.If(c, a, b)


def _num(x, like=None):
    if isinstance(x, bool):
        raise TypeError('bool used as number')
    if isinstance(x, int):
        if like is not None and z3.is_expr(like) and z3.is_real(like):
            return z3.RealVal(x)
        return z3.IntVal(x)
    if isinstance(x, fractions.Fraction):
        return z3.RealVal(x)
    if isinstance(x, float):
        return z3.RealVal(fractions.Fraction(x))
    raise TypeError(f'not a number: {x!r}')


def as_bool_term(x):
    x = zbool(x)
    if isinstance(x, bool):
        return z3.BoolVal(x)
    return x


# --------------------------------------------------------------------------- SBool
class SBool:
    """Symbolic boolean.  ``bool()`` forks the execution."""
    def __init__(self, t):
        self.t = zbool(t)

    def __bool__(self):
        t = self.t
        if isinstance(t, bool):
            return t
        return CUR.decide(t)

    def __and__(self, o):
        try:
            return SBool(And(self.t, zbool(o)))
        except TypeError:
            return NotImplemented
    __rand__ = __and__

    def __or__(self, o):
        try:
            return SBool(Or(self.t, zbool(o)))
        except TypeError:
            return NotImplemented
    __ror__ = __or__

    def __xor__(self, o):
        try:
            return SBool(Xor(self.t, zbool(o)))
        except TypeError:
            return NotImplemented
    __rxor__ = __xor__

    def __invert__(self):
        return SBool(Not(self.t))

    def __eq__(self, o):
        try:
            return SBool(Not(Xor(self.t, zbool(o))))
        except TypeError:
            return NotImplemented

    def __ne__(self, o):
        try:
            return SBool(Xor(self.t, zbool(o)))
        except TypeError:
            return NotImplemented

    def __hash__(self):
        return hash(bool(self))

    def __int__(self):
        return int(bool(self))

    def __index__(self):
        return int(bool(self))

    # arithmetic on booleans (True + True == 2) as numpy's count_nonzero / sum may do
    def _as_int(self):
        return SInt(If(self.t, 1, 0))

    def __add__(self, o):
        return self._as_int() + o
    __radd__ = __add__

    # numpy.bool_ look-alike
    def all(self, *a, **k):
        return self

    def any(self, *a, **k):
        return self

    shape = ()
    ndim = 0
    size = 1

    def __repr__(self):
        return f'SBool({self.t})'


def sbool(x):
    return x if isinstance(x, SBool) else SBool(x)


# --------------------------------------------------------------------------- SInt
class SInt:
    """Symbolic mathematical integer (Python ``int``)."""
    __slots__ = ('t', 'dom')

    def __init__(self, t, dom=None):
        if isinstance(t, SInt):
            t, dom = t.t, (dom or t.dom)
        if isinstance(t, int):
            t = z3.IntVal(t)
        self.t = t
        self.dom = dom      # optional (lo, hi) known finite range, used for concretisation

    @staticmethod
    def _lift(o):
        if isinstance(o, SInt):
            return o.t
        if isinstance(o, bool):
            return z3.IntVal(int(o))
        if isinstance(o, int):
            return z3.IntVal(o)
        if isinstance(o, SBool):
            return If(o.t, 1, 0)
        import numpy as np
        if isinstance(o, np.integer):
            return z3.IntVal(int(o))
        return None

    def _bin(self, o, f):
        if isinstance(o, (SReal, float)):
            return NotImplemented if isinstance(o, SReal) else f_real(self, o, f)
        ot = self._lift(o)
        if ot is None:
            return NotImplemented
        return SInt(z3.simplify(f(self.t, ot)))

    def __add__(self, o):
        return self._bin(o, lambda a, b: a + b)
    __radd__ = __add__

    def __sub__(self, o):
        return self._bin(o, lambda a, b: a - b)

    def __rsub__(self, o):
        return self._bin(o, lambda a, b: b - a)

    def __mul__(self, o):
        return self._bin(o, lambda a, b: a * b)
    __rmul__ = __mul__

    def __floordiv__(self, o):
        # Python floor division == z3 div only for positive divisor; encode generally
        def f(a, b):
            return z3.If(b > 0, a / b, -((-a) / (-b)) if False else z3.If(b < 0, (-a) / (-b), a / b))
        ot = self._lift(o)
        if ot is None:
            return NotImplemented
        if bool(SBool(ot == 0)):
            raise ZeroDivisionError('integer division or modulo by zero')
        # z3 int div rounds so that remainder is non-negative: a = b*q + r, 0<=r<|b|.
        # Python: floor.  For b>0 both agree.  For b<0: floor(a/b) = z3div(-a,-b).
        return SInt(z3.simplify(z3.If(ot > 0, self.t / ot, (-self.t) / (-ot))))

    def __mod__(self, o):
        q = self.__floordiv__(o)
        if q is NotImplemented:
            return q
        return self - q * o

    def __truediv__(self, o):
        return SReal.from_int(self) / o

    def __rtruediv__(self, o):
        return SReal.lift(o) / SReal.from_int(self)

    def __neg__(self):
        return SInt(-self.t)

    def __pos__(self):
        return self

    def __abs__(self):
        return SInt(z3.If(self.t >= 0, self.t, -self.t))

    def _cmp(self, o, f):
        if isinstance(o, SReal):
            return NotImplemented
        if isinstance(o, float):
            return f_cmp_real(self, o, f)
        ot = self._lift(o)
        if ot is None:
            return NotImplemented
        return SBool(z3.simplify(f(self.t, ot)))

    def __lt__(self, o):
        return self._cmp(o, lambda a, b: a < b)

    def __le__(self, o):
        return self._cmp(o, lambda a, b: a <= b)

    def __gt__(self, o):
        return self._cmp(o, lambda a, b: a > b)

    def __ge__(self, o):
        return self._cmp(o, lambda a, b: a >= b)

    def __eq__(self, o):
        r = self._cmp(o, lambda a, b: a == b)
        return SBool(False) if r is NotImplemented else r

    def __ne__(self, o):
        r = self._cmp(o, lambda a, b: a != b)
        return SBool(True) if r is NotImplemented else r

    def __bool__(self):
        return bool(SBool(z3.simplify(self.t != 0)))

    def concretize(self):
        return CUR.concretize_int(self.t, self.dom)

    def __index__(self):
        return self.concretize()

    def __int__(self):
        return self.concretize()

    def __hash__(self):
        return hash(self.concretize())

    def __repr__(self):
        return f'SInt({self.t})'


class SKey(SInt):
    """An arbitrary hashable value of which only equality is observable (dictionary key, set member,
    metadata value).  hash() is constant, so Python's dict/set fall back to ``==`` on every probe and
    ``==`` returns an SBool: containers partition the keys by solver-decided equality (one path per
    feasible equality pattern) instead of enumerating values."""
    __slots__ = ()

    def __hash__(self):
        return 0

    def __eq__(self, o):
        if isinstance(o, SInt):
            return SBool(z3.simplify(self.t == o.t))
        if isinstance(o, bool) or not isinstance(o, int):
            return False
        return SBool(z3.simplify(self.t == o))

    def __ne__(self, o):
        r = self.__eq__(o)
        return (not r) if isinstance(r, bool) else ~r

    def __repr__(self):
        return f'SKey({self.t})'


class SStr:
    """Symbolic string (z3 String) with the operations path/name checks use: ==, !=, in, +, startswith,
    endswith, len() comparisons through .length(); repr/format never concretise."""
    __slots__ = ('t',)

    def __init__(self, t):
        self.t = z3.StringVal(t) if isinstance(t, str) else t

    @staticmethod
    def _lift(o):
        if isinstance(o, SStr):
            return o.t
        if isinstance(o, str):
            return z3.StringVal(o)
        return None

    def __eq__(self, o):
        ot = self._lift(o)
        return SBool(False) if ot is None else SBool(z3.simplify(self.t == ot))

    def __ne__(self, o):
        ot = self._lift(o)
        return SBool(True) if ot is None else SBool(z3.simplify(self.t != ot))

    def __hash__(self):
        return 0

    def __contains__(self, o):
        ot = self._lift(o)
        if ot is None:
            raise TypeError('in <string> requires string as left operand')
        return bool(SBool(z3.simplify(z3.Contains(self.t, ot))))

    def contains(self, o):
        return SBool(z3.Contains(self.t, self._lift(o)))

    def __add__(self, o):
        ot = self._lift(o)
        return NotImplemented if ot is None else SStr(z3.Concat(self.t, ot))

    def __radd__(self, o):
        ot = self._lift(o)
        return NotImplemented if ot is None else SStr(z3.Concat(ot, self.t))

    def startswith(self, o):
        return bool(SBool(z3.PrefixOf(self._lift(o), self.t)))

    def endswith(self, o):
        return bool(SBool(z3.SuffixOf(self._lift(o), self.t)))

    def length(self):
        return SInt(z3.Length(self.t))

    def __len__(self):
        return CUR.concretize_int(z3.Length(self.t))

    def __bool__(self):
        return bool(SBool(z3.simplify(z3.Length(self.t) > 0)))

    def __repr__(self):
        return f'SStr({self.t})'

    def __str__(self):
        raise UnsupportedSymbolic('str() of a symbolic string')

    def __format__(self, spec):
        return repr(self)


def f_real(si, o, f):
    return NotImplemented


def f_cmp_real(si, o, f):
    return NotImplemented


# --------------------------------------------------------------------------- SReal
class SReal:
    """Extended real: finite real, NaN, +inf or -inf.

    Exact real arithmetic on finite values, IEEE-754 special-value algebra on the tags.
    Rounding, overflow and the sign of zero are outside the model (stated in DESIGN).
    ``nan``, ``pinf``, ``ninf`` are z3 Bool terms or Python bools (mutually exclusive);
    ``r`` is a z3 Real term, meaningful only when the three flags are false.
    """
    __slots__ = ('nan', 'pinf', 'ninf', 'r')

    def __init__(self, r, nan=False, pinf=False, ninf=False):
        if isinstance(r, (int, float, fractions.Fraction)) and not isinstance(r, bool):
            r = z3.RealVal(fractions.Fraction(r))
        self.r = r
        self.nan = nan
        self.pinf = pinf
        self.ninf = ninf

    # -- construction
    @staticmethod
    def lift(x):
        if isinstance(x, SReal):
            return x
        if isinstance(x, SInt):
            return SReal.from_int(x)
        if isinstance(x, SBool):
            return SReal(If(x.t, z3.RealVal(1), z3.RealVal(0)))
        if isinstance(x, bool):
            return SReal(int(x))
        if isinstance(x, int):
            return SReal(x)
        if isinstance(x, fractions.Fraction):
            return SReal(x)
        if hasattr(x, '__array_ufunc__') and getattr(x, 'ndim', 0) != 0:
            return None
        try:
            xf = float(x)
        except (TypeError, ValueError):
            return None
        if math.isnan(xf):
            return SReal(0, nan=True)
        if math.isinf(xf):
            return SReal(0, pinf=xf > 0, ninf=xf < 0)
        return SReal(fractions.Fraction(xf))

    @staticmethod
    def from_int(si):
        return SReal(z3.ToReal(si.t))

    # -- predicates (z3 Bool or python bool)
    def is_inf(self):
        return Or(self.pinf, self.ninf)

    def is_fin(self):
        return Not(Or(self.nan, self.pinf, self.ninf))

    def is_zero(self):
        return And(self.is_fin(), self.r == 0)

    def is_neg(self):
        """strictly negative (incl. -inf)"""
        return Or(self.ninf, And(self.is_fin(), self.r < 0))

    def is_pos(self):
        return Or(self.pinf, And(self.is_fin(), self.r > 0))

    # -- arithmetic
    def _plain(self):
        return self.nan is False and self.pinf is False and self.ninf is False

    def __add__(self, o):
        o = SReal.lift(o)
        if o is None:
            return NotImplemented
        a, b = self, o
        if a._plain() and b._plain():
            return SReal(a.r + b.r)
        nan = Or(a.nan, b.nan, And(a.pinf, b.ninf), And(a.ninf, b.pinf))
        pinf = And(Not(nan), Or(a.pinf, b.pinf))
        ninf = And(Not(nan), Or(a.ninf, b.ninf))
        return SReal(_simp(a.r + b.r), nan, pinf, ninf)
    __radd__ = __add__

    def __neg__(self):
        return SReal(_simp(-self.r), self.nan, self.ninf, self.pinf)

    def __pos__(self):
        return self

    def __sub__(self, o):
        o = SReal.lift(o)
        if o is None:
            return NotImplemented
        return self + (-o)

    def __rsub__(self, o):
        o = SReal.lift(o)
        if o is None:
            return NotImplemented
        return o + (-self)

    def __mul__(self, o):
        o = SReal.lift(o)
        if o is None:
            return NotImplemented
        a, b = self, o
        if a._plain() and b._plain():
            return SReal(a.r * b.r)
        a_inf, b_inf = a.is_inf(), b.is_inf()
        nan = Or(a.nan, b.nan, And(a_inf, b.is_zero()), And(b_inf, a.is_zero()))
        neg = Xor(a.is_neg(), b.is_neg())
        inf = And(Not(nan), Or(a_inf, b_inf))
        return SReal(_simp(a.r * b.r), nan, And(inf, Not(neg)), And(inf, neg))
    __rmul__ = __mul__

    def __truediv__(self, o):
        o = SReal.lift(o)
        if o is None:
            return NotImplemented
        a, b = self, o
        if a._plain() and b._plain() and z3.is_rational_value(b.r) and b.r.numerator_as_long() != 0:
            return SReal(a.r / b.r)
        a_inf, b_inf = a.is_inf(), b.is_inf()
        a_zero, b_zero = a.is_zero(), b.is_zero()
        nan = Or(a.nan, b.nan, And(a_zero, b_zero), And(a_inf, b_inf))
        inf = And(Not(nan), Or(a_inf, b_zero))
        neg = Xor(a.is_neg(), b.is_neg())      # a zero divisor counts as +0 (stated)
        # finite result: F/inf = 0 ; F/F = quotient
        safe_b = If(Or(b_zero, Not(b.is_fin())), z3.RealVal(1), b.r)
        r = If(b_inf, z3.RealVal(0), a.r / safe_b)
        return SReal(_simp(r), nan, And(inf, Not(neg)), And(inf, neg))

    def __rtruediv__(self, o):
        o = SReal.lift(o)
        if o is None:
            return NotImplemented
        return o / self

    def __pow__(self, p):
        if isinstance(p, (int, float)) and not isinstance(p, bool):
            if p == 2:
                return self * self
            if p == 1:
                return self
            if p == 0.5:
                return self.sqrt()
            if p == 3:
                return self * self * self
            if p == 4:
                s = self * self
                return s * s
            if p == -1:
                return SReal(1) / self
        raise UnsupportedSymbolic(f'SReal ** {p!r}')

    def sqrt(self):
        a = self
        nan = Or(a.nan, a.ninf, And(a.is_fin(), a.r < 0))
        # one root variable per argument term (hash-consed): recomputing the same square root in
        # the harness yields the very same term as in the code under analysis
        key = tuple(x.get_id() if z3.is_expr(x) else x for x in (a.r, a.nan, a.pinf, a.ninf))
        cache = CUR.sqrt_cache
        hit = cache.get(key)
        if hit is not None and hit[0].eq(a.r):
            s = hit[1]
        else:
            s = CUR.fresh_real('sqrt')
            cache[key] = (a.r, s)
            ok = And(a.is_fin(), a.r >= 0)
            CUR.side(Implies(ok, z3.And(s >= 0, s * s == a.r)))
            CUR.side(Implies(Not(ok), s == 0))
        return SReal(s, nan, a.pinf, False)

    def __abs__(self):
        return SReal(_simp(z3.If(self.r >= 0, self.r, -self.r)), self.nan,
                     Or(self.pinf, self.ninf), False)

    fabs = __abs__

    # -- comparisons (IEEE: anything with NaN is False, != is True)
    def _lt(a, b):
        if a._plain() and b._plain():
            return a.r < b.r
        return And(Not(a.nan), Not(b.nan),
                   Or(And(a.ninf, Not(b.ninf)), And(b.pinf, Not(a.pinf)),
                      And(a.is_fin(), b.is_fin(), a.r < b.r)))

    def _eq(a, b):
        if a._plain() and b._plain():
            return a.r == b.r
        return And(Not(a.nan), Not(b.nan),
                   Or(And(a.pinf, b.pinf), And(a.ninf, b.ninf),
                      And(a.is_fin(), b.is_fin(), a.r == b.r)))

    def __lt__(self, o):
        o = SReal.lift(o)
        if o is None:
            return NotImplemented
        return SBool(self._lt(o))

    def __gt__(self, o):
        o = SReal.lift(o)
        if o is None:
            return NotImplemented
        return SBool(o._lt(self))

    def __le__(self, o):
        o = SReal.lift(o)
        if o is None:
            return NotImplemented
        return SBool(Or(self._lt(o), self._eq(o)))

    def __ge__(self, o):
        o = SReal.lift(o)
        if o is None:
            return NotImplemented
        return SBool(Or(o._lt(self), self._eq(o)))

    def __eq__(self, o):
        o = SReal.lift(o)
        if o is None:
            return SBool(False)
        return SBool(self._eq(o))

    def __ne__(self, o):
        o = SReal.lift(o)
        if o is None:
            return SBool(True)
        return SBool(Not(self._eq(o)))

    def __hash__(self):
        raise UnsupportedSymbolic('hash of a symbolic real')

    def __bool__(self):
        return bool(SBool(Not(self.is_zero())))

    def __float__(self):
        raise UnsupportedSymbolic('float() of a symbolic real')

    def isnan(self):
        return SBool(self.nan)

    def isinf(self):
        return SBool(self.is_inf())

    def isfinite(self):
        return SBool(self.is_fin())

    def ident(self, o):
        """bit-for-bit sameness (NaN identical to NaN) -- for 'unchanged' oracles"""
        o = SReal.lift(o)
        return SBool(Or(And(self.nan, o.nan), self._eq(o)))

    def __repr__(self):
        return f'SReal(r={self.r}, nan={self.nan}, +inf={self.pinf}, -inf={self.ninf})'

    def __format__(self, spec):
        return repr(self)


def _simp(t):
    return t


def smin(a, b):
    """numpy-style (NaN-propagating) minimum of two SReal-liftables"""
    a, b = SReal.lift(a), SReal.lift(b)
    take_a = Or(a.nan, And(Not(b.nan), Or(a._lt(b), a._eq(b))))
    return sreal_ite(take_a, a, b)


def smax(a, b):
    a, b = SReal.lift(a), SReal.lift(b)
    take_a = Or(a.nan, And(Not(b.nan), Or(b._lt(a), a._eq(b))))
    return sreal_ite(take_a, a, b)


def sreal_ite(c, a, b):
    a, b = SReal.lift(a), SReal.lift(b)
    c = zbool(c)
    if _is_true(c):
        return a
    if _is_false(c):
        return b
    return SReal(If(c, a.r, b.r), If(c, a.nan, b.nan) if not (a.nan is False and b.nan is False) else False,
                 If(c, a.pinf, b.pinf) if not (a.pinf is False and b.pinf is False) else False,
                 If(c, a.ninf, b.ninf) if not (a.ninf is False and b.ninf is False) else False)


def sint_ite(c, a, b):
    c = zbool(c)
    if _is_true(c):
        return a
    if _is_false(c):
        return b
    at = SInt._lift(a)
    bt = SInt._lift(b)
    return SInt(z3.If(c, at, bt))


def sbool_ite(c, a, b):
    return SBool(Or(And(c, a), And(Not(c), b)))


# --------------------------------------------------------------------------- Explorer
class Failure:
    def __init__(self, label, kind, inputs, detail='', decisions=None):
        self.label = label          # property label
        self.kind = kind            # 'check' | 'exception'
        self.inputs = inputs        # concrete values of the registered inputs (model)
        self.detail = detail
        self.decisions = decisions

    def to_json(self):
        return {'label': self.label, 'kind': self.kind, 'inputs': self.inputs,
                'detail': self.detail}


class Stats:
    def __init__(self):
        self.paths = 0
        self.paths_aborted = 0
        self.queries = 0
        self.sat = 0
        self.unsat = 0
        self.unknown = 0
        self.solver_s = 0.0
        self.checks = {}          # label -> number of paths on which it was reached
        self.check_unsat = {}     # label -> number of unsat verdicts
        self.trivial = 0          # checks discharged by constant folding
        self.samples = []

    def merge(self, o):
        for k in ('paths', 'paths_aborted', 'queries', 'sat', 'unsat', 'unknown', 'trivial'):
            setattr(self, k, getattr(self, k) + getattr(o, k))
        self.solver_s += o.solver_s
        for k, v in o.checks.items():
            self.checks[k] = self.checks.get(k, 0) + v
        for k, v in o.check_unsat.items():
            self.check_unsat[k] = self.check_unsat.get(k, 0) + v
        self.samples.extend(o.samples[:max(0, 6 - len(self.samples))])

    def to_json(self):
        return {'paths': self.paths, 'paths_aborted': self.paths_aborted,
                'solver_queries': self.queries, 'sat': self.sat, 'unsat': self.unsat,
                'unknown': self.unknown, 'solver_seconds': round(self.solver_s, 3),
                'checks_reached': self.checks, 'checks_unsat': self.check_unsat,
                'checks_trivially_true': self.trivial}


class Explorer:
    """Symbolic mode."""
    symbolic = True

    def __init__(self, *, query_timeout_ms=20000, max_paths=200000, seed=0,
                 stop_at_first=True, max_failures=8, exclude=None, deadline=None, logic=None):
        self.logic = logic
        self.query_timeout_ms = query_timeout_ms
        self.max_paths = max_paths
        self.seed = seed
        self.stop_at_first = stop_at_first
        self.max_failures = max_failures
        self.stats = Stats()
        self.failures = []
        self.inconclusive = []       # descriptions
        self.deadline = deadline
        self._exclude = exclude or {}     # label -> harness callback giving extra constraint

    # ---- per-path state
    def _reset_path(self, prefix):
        # an explicit logic matters: z3's default combined solver can hang (ignoring its timeout)
        # on nonlinear real queries that the QF_NRA tactic decides in milliseconds
        self.solver = z3.SolverFor(self.logic) if self.logic else z3.Solver()
        self.solver.set('timeout', self.query_timeout_ms)
        if self.seed:
            self.solver.set('random_seed', self.seed)
        self.decisions = list(prefix)
        self.pos = 0
        self.counter = itertools.count()
        self.inputs = {}            # name -> proxy (registered inputs)
        self.notes = {}             # free-form per-path notes included in samples
        self.path_failed = False
        self.path_dead = False      # a steering exception is unwinding the stack (finally blocks still run)
        self.refiners = []
        self.law_stubs = []
        self.sqrt_cache = {}

    # ---- solver plumbing
    def _check(self, *assumptions, need_model=False):
        t0 = time.time()
        if self.logic:
            # non-incremental: a fresh solver per query keeps z3 on its tactic-based (complete)
            # procedure for the logic; incremental mode falls back to a core that can diverge.
            # Cone of influence: only the assertions that share variables (transitively) with
            # the queried formula are sent; the rest of the path condition is satisfiable on its
            # own (feasibility is re-established at every decision) and independent.
            asserts = list(self.solver.assertions())
            query = [a for a in assumptions]
            sl = self._slice(asserts, query) if query else asserts
            s = z3.SolverFor(self.logic)
            s.set('timeout', self.query_timeout_ms)
            if self.seed:
                s.set('random_seed', self.seed)
            s.add(*sl)
            s.add(*query)
            r = s.check()
            self._last = s
            if r == z3.sat and need_model and len(sl) < len(asserts):
                # complete the model over the dropped (independent) assertions
                m = s.model()
                s2 = z3.SolverFor(self.logic)
                s2.set('timeout', self.query_timeout_ms)
                s2.add(*asserts)
                s2.add(*query)
                for d in m.decls():
                    if d.arity() == 0:
                        s2.add(d() == m[d])
                if s2.check() == z3.sat:
                    self._last = s2
        else:
            r = self.solver.check(*assumptions)
            self._last = self.solver
        self.stats.solver_s += time.time() - t0
        self.stats.queries += 1
        if r == z3.sat:
            self.stats.sat += 1
        elif r == z3.unsat:
            self.stats.unsat += 1
        else:
            self.stats.unknown += 1
        return r

    _VARS = {}

    @classmethod
    def _vars_of(cls, t):
        k = t.get_id()
        v = cls._VARS.get(k)
        if v is not None and v[0].eq(t):
            return v[1]
        out = set()
        seen = set()
        stack = [t]
        while stack:
            x = stack.pop()
            i = x.get_id()
            if i in seen:
                continue
            seen.add(i)
            if z3.is_app(x):
                if x.num_args() == 0 and x.decl().kind() == z3.Z3_OP_UNINTERPRETED:
                    out.add(x.decl().name())
                else:
                    stack.extend(x.children())
        if len(cls._VARS) > 200000:
            cls._VARS.clear()
        cls._VARS[k] = (t, frozenset(out))
        return cls._VARS[k][1]

    def _slice(self, asserts, query):
        need = set()
        for q in query:
            need |= self._vars_of(q)
        vs = [self._vars_of(a) for a in asserts]
        used = [False] * len(asserts)
        changed = True
        while changed:
            changed = False
            for i, v in enumerate(vs):
                if not used[i] and (not v or (v & need)):
                    used[i] = True
                    if not v <= need:
                        need |= v
                        changed = True
        return [a for a, u in zip(asserts, used) if u]

    def side(self, c):
        c = zbool(c)
        if _is_true(c):
            return
        self.solver.add(as_bool_term(c))

    def fresh_name(self, base):
        return f'{base}!{next(self.counter)}'

    def fresh_real(self, base='r'):
        return z3.Real(self.fresh_name(base))

    def fresh_int(self, base='i'):
        return z3.Int(self.fresh_name(base))

    def fresh_bool(self, base='b'):
        return z3.Bool(self.fresh_name(base))

    # ---- decisions
    def decide(self, cond):
        cond = z3.simplify(cond)
        if z3.is_true(cond):
            return True
        if z3.is_false(cond):
            return False
        if self.pos < len(self.decisions):
            d = self.decisions[self.pos]
            self.pos += 1
            assert d[0] == 'b', f'decision mismatch (non-deterministic harness?): {d}'
            self.solver.add(cond if d[1] else z3.Not(cond))
            return d[1]
        rt = self._check(cond)
        rf = self._check(z3.Not(cond))
        can_t = rt != z3.unsat
        can_f = rf != z3.unsat
        if can_t and can_f:
            self.worklist.append(self.decisions[:self.pos] + [('b', False)])
            d = True
        elif can_t:
            d = True
        elif can_f:
            d = False
        else:
            raise PathAbort()
        self.decisions.append(('b', d))
        self.pos += 1
        self.solver.add(cond if d else z3.Not(cond))
        return d

    def concretize_int(self, term, dom=None):
        term = z3.simplify(term)
        if z3.is_int_value(term):
            return term.as_long()
        start = None
        if self.pos < len(self.decisions):
            d = self.decisions[self.pos]
            if d[0] == 'v':
                self.pos += 1
                self.solver.add(term == d[1])
                return d[1]
            if d[0] == 'ge':
                start = d[1]
                excluded = []
            else:
                assert d[0] == 'nv', f'decision mismatch: {d}'
                excluded = list(d[1])
            # the entry is replaced by the value chosen now
            self.decisions = self.decisions[:self.pos]
        else:
            excluded = []
        if dom is not None and dom[0] is not None and dom[1] is not None and not excluded:
            # finite range: walk it in increasing order (two cheap queries per value)
            lo = dom[0] if start is None else start
            for v in range(lo, dom[1] + 1):
                if self._check(term == v) == z3.sat:
                    if v < dom[1] and self._check(term > v, term <= dom[1]) != z3.unsat:
                        self.worklist.append(self.decisions[:self.pos] + [('ge', v + 1)])
                    self.decisions.append(('v', v))
                    self.pos += 1
                    self.solver.add(term == v)
                    return v
            raise PathAbort()
        for v in excluded:
            self.solver.add(term != v)
        if dom is not None:
            self.solver.add(term >= dom[0], term <= dom[1])
        r = self._check()
        if r != z3.sat:
            if r == z3.unknown:
                self.inconclusive.append('unknown while concretising an integer')
            raise PathAbort()
        m = self._last.model()
        v = m.eval(term, model_completion=True).as_long()
        # is another value possible?
        r2 = self._check(term != v)
        if r2 != z3.unsat:
            self.worklist.append(self.decisions[:self.pos] + [('nv', excluded + [v])])
        self.decisions.append(('v', v))
        self.pos += 1
        self.solver.add(term == v)
        return v

    def choice(self, n, label='choice'):
        """forked selector in range(n): a pure enumerated decision (kept out of the solver so that
        integer selector variables do not push z3 out of the pure real-arithmetic fragment)"""
        if self.pos < len(self.decisions):
            d = self.decisions[self.pos]
            assert d[0] == 'c', f'decision mismatch: {d}'
            v = d[1]
        else:
            v = 0
            for alt in range(n - 1, 0, -1):
                self.worklist.append(self.decisions[:self.pos] + [('c', alt)])
            self.decisions.append(('c', 0))
        self.pos += 1
        self.notes.setdefault('choices', []).append((label, v))
        return v

    def flag(self, label='flag'):
        return bool(self.choice(2, label))

    # ---- inputs
    def _reg(self, name, proxy):
        assert name not in self.inputs, name
        self.inputs[name] = proxy
        return proxy

    def bool(self, name):
        return self._reg(name, SBool(z3.Bool(name)))

    def int(self, name, lo=None, hi=None):
        t = z3.Int(name)
        if lo is not None:
            self.solver.add(t >= lo)
        if hi is not None:
            self.solver.add(t <= hi)
        dom = (lo, hi) if lo is not None and hi is not None else None
        return self._reg(name, SInt(t, dom))

    def real(self, name, *, special=False, nonneg=False, pos=False):
        """finite real, or (special=True) extended real with free NaN/+inf/-inf tags"""
        r = z3.Real(name)
        if special:
            nan, pinf, ninf = z3.Bool(name + '.nan'), z3.Bool(name + '.pinf'), z3.Bool(name + '.ninf')
            self.solver.add(z3.Not(z3.And(nan, pinf)), z3.Not(z3.And(nan, ninf)), z3.Not(z3.And(pinf, ninf)))
            self.solver.add(z3.Implies(z3.Or(nan, pinf, ninf), r == 0))
            x = SReal(r, nan, pinf, ninf)
            if nonneg or pos:
                self.solver.add(z3.Not(ninf))
        else:
            x = SReal(r)
        if pos:
            self.solver.add(z3.Or(r > 0, *([x.pinf, x.nan] if special else [])))
        elif nonneg:
            self.solver.add(r >= 0)
        return self._reg(name, x)

    def str(self, name):
        return self._reg(name, SStr(z3.String(name)))

    def key(self, name):
        """arbitrary hashable value (equality only)"""
        return self._reg(name, SKey(z3.Int(name)))

    def assume(self, c):
        c = zbool(c)
        if _is_true(c):
            return
        if _is_false(c):
            raise PathAbort()
        self.solver.add(c)
        if self._check() == z3.unsat:
            raise PathAbort()

    def note(self, key, value):
        self.notes[key] = value

    # ---- checks
    def check(self, cond, label, *, detail=None):
        """Assert ``cond`` on the current path: one query pc /\\ not cond."""
        self.stats.checks[label] = self.stats.checks.get(label, 0) + 1
        c = zbool(cond)
        if z3.is_expr(c):
            c = z3.simplify(c)
        if _is_true(c):
            self.stats.trivial += 1
            self.stats.check_unsat[label] = self.stats.check_unsat.get(label, 0) + 1
            return True
        neg = z3.BoolVal(True) if _is_false(c) else z3.Not(c)
        extra = []
        ex = self._exclude.get(label) or self._exclude.get('*')
        if ex is not None:
            extra = [as_bool_term(Not(ex(self)))]
        r = self._check(neg, *extra, need_model=True)
        if r == z3.unsat:
            self.stats.check_unsat[label] = self.stats.check_unsat.get(label, 0) + 1
            return True
        if r == z3.unknown:
            self.inconclusive.append(f'solver unknown on check {label!r}')
            return None
        m = self._last.model()
        m = self._refine(m, neg, extra)
        inputs = self.model_inputs(m)
        d = detail(m) if callable(detail) else (detail or '')
        self.failures.append(Failure(label, 'check', inputs, d, list(self.decisions)))
        self.path_failed = True
        if len(self.failures) >= self.max_failures:
            raise Budget()
        return False

    def _refine(self, m, neg, extra):
        """Ask the registered refiners (environment stubs) for constraints that make the model
        consistent with the real library (e.g. real quantiles of a law); re-solve with them.
        Up to 6 attempts with different stub-relevant values; falls back to the raw model."""
        refiners = getattr(self, 'refiners', None)
        if not refiners:
            return m
        blocks = []
        cur = m
        for _ in range(6):
            pins, keys = [], []
            for fn in refiners:
                k, p = fn(cur)
                keys.extend(k)
                pins.extend(p)
            if not pins:
                return cur
            r = self._check(neg, *extra, *keys, *pins)
            if r == z3.sat:
                return self._last.model()
            # the pinned (alpha, ndf...) admit no counterexample: look for another combination
            if not keys:
                break
            blocks.append(z3.Not(z3.And(*keys)))
            r = self._check(neg, *extra, *blocks)
            if r != z3.sat:
                break
            cur = self._last.model()
        return m

    def lemma(self, cond, label):
        """check `cond` like any other clause and, once decided (unsat of its negation), keep it
        as an assertion of the path so that later, larger queries can use it"""
        r = self.check(cond, label)
        if r is True:
            self.side(cond)
        return r

    def fail(self, label, detail=''):
        """Unconditional failure on this path (reached a state that must not be reachable)."""
        return self.check(False, label, detail=detail)

    def model_value(self, m, p):
        if isinstance(p, SBool):
            t = p.t
            return bool(t) if isinstance(t, bool) else z3.is_true(m.eval(t, model_completion=True))
        if isinstance(p, SStr):
            return m.eval(p.t, model_completion=True).as_string()
        if isinstance(p, SInt):
            return m.eval(p.t, model_completion=True).as_long()
        if isinstance(p, SReal):
            def b(t):
                return bool(t) if isinstance(t, bool) else z3.is_true(m.eval(t, model_completion=True))
            if b(p.nan):
                return 'nan'
            if b(p.pinf):
                return 'inf'
            if b(p.ninf):
                return '-inf'
            v = m.eval(p.r, model_completion=True)
            if z3.is_rational_value(v):
                fr = fractions.Fraction(v.numerator_as_long(), v.denominator_as_long())
            else:                    # algebraic number
                fr = fractions.Fraction(v.approx(20).as_fraction())
            return {'frac': [fr.numerator, fr.denominator], 'float': float(fr)}
        if hasattr(p, 'model_value'):
            return p.model_value(m, self)
        raise TypeError(p)

    def model_inputs(self, m):
        out = {}
        for name, p in self.inputs.items():
            out[name] = self.model_value(m, p)
        if self.notes:
            out['_notes'] = _jsonable(self.notes)
        return out

    # ---- main loop
    def explore(self, harness):
        global CUR
        self.worklist = [[]]
        t_start = time.time()
        try:
            while self.worklist:
                if self.stats.paths >= self.max_paths:
                    self.inconclusive.append(f'path budget {self.max_paths} exhausted')
                    break
                if self.deadline is not None and time.time() > self.deadline:
                    self.inconclusive.append('time budget exhausted')
                    break
                prefix = self.worklist.pop()
                self._reset_path(prefix)
                prev, CUR = CUR, self
                try:
                    with path_alarm(getattr(self, 'path_timeout_s', 60)):
                        harness(self)
                    self.stats.paths += 1
                    if len(self.stats.samples) < 4:
                        r = self._check(need_model=True)
                        if r == z3.sat:
                            self.stats.samples.append(self.model_inputs(self._last.model()))
                except PathAbort:
                    self.stats.paths_aborted += 1
                except Budget:
                    break
                except UnsupportedSymbolic as e:
                    self.inconclusive.append(f'unsupported symbolic operation: {e}')
                    self.stats.paths += 1
                except (PathTimeout, Exception) as e:    # noqa -- escaped the harness: report with a model
                    self.stats.paths += 1
                    import traceback
                    tb = traceback.format_exc(limit=-6)
                    r = self._check()
                    if r == z3.sat:
                        inputs = self.model_inputs(self._last.model())
                        self.failures.append(Failure('no-unexpected-exception', 'exception', inputs,
                                                     f'{type(e).__name__}: {e}\n{tb}',
                                                     list(self.decisions)))
                    else:
                        self.inconclusive.append(f'exception {type(e).__name__} on a path whose '
                                                 f'feasibility is {r}')
                finally:
                    CUR = prev
                if self.failures and self.stop_at_first:
                    break
        finally:
            self.wall_s = time.time() - t_start
        return self


def _jsonable(x):
    if isinstance(x, dict):
        return {str(k): _jsonable(v) for k, v in x.items()}
    if isinstance(x, (list, tuple)):
        return [_jsonable(v) for v in x]
    if isinstance(x, (str, int, float, bool)) or x is None:
        return x
    return repr(x)


# --------------------------------------------------------------------------- Concrete
class Concrete:
    """Replay mode: same harness, ordinary Python values taken from a model."""
    symbolic = False

    def __init__(self, inputs):
        self.given = inputs
        self.failures = []
        self.notes = {}
        self._choices = list((inputs.get('_notes') or {}).get('choices', []))
        self._ci = 0

    @staticmethod
    def _val(v):
        if isinstance(v, dict):
            return float(fractions.Fraction(*v['frac'])) if 'frac' in v else v['float']
        if v == 'nan':
            return float('nan')
        if v == 'inf':
            return float('inf')
        if v == '-inf':
            return float('-inf')
        return v

    def bool(self, name):
        return bool(self.given[name])

    def int(self, name, lo=None, hi=None):
        return int(self.given[name])

    def real(self, name, **kw):
        return self._val(self.given[name])

    def key(self, name):
        return int(self.given[name])

    def str(self, name):
        return self.given[name]

    def choice(self, n, label='choice'):
        if self._ci >= len(self._choices):
            raise ReplayEnd()      # the symbolic path ended here (it had recorded a failure)
        lab, v = self._choices[self._ci]
        self._ci += 1
        assert lab == label, (lab, label)
        return v

    def flag(self, label='flag'):
        return bool(self.choice(2, label))

    def assume(self, c):
        if not c:
            raise PathAbort()

    def note(self, key, value):
        self.notes[key] = value

    def side(self, c):
        pass

    def check(self, cond, label, *, detail=None):
        ok = bool(cond)
        if not ok:
            self.failures.append(Failure(label, 'check', self.given, ''))
        return ok

    def fail(self, label, detail=''):
        return self.check(False, label)

    lemma = check

    def run(self, harness):
        try:
            with path_alarm(60):
                harness(self)
        except ReplayEnd:
            pass
        except KeyError as e:
            if e.args and isinstance(e.args[0], str) and e.args[0] not in self.given and self.failures:
                pass          # input created after the recorded failure point
            else:
                import traceback
                self.failures.append(Failure('no-unexpected-exception', 'exception', self.given,
                                             f'KeyError: {e}\n' + traceback.format_exc(limit=-6)))
        except PathAbort:
            self.failures.append(Failure('replay-left-the-assumptions', 'harness', self.given))
        except (PathTimeout, Exception) as e:   # noqa
            import traceback
            self.failures.append(Failure('no-unexpected-exception', 'exception', self.given,
                                         f'{type(e).__name__}: {e}\n' + traceback.format_exc(limit=-6)))
        return self
