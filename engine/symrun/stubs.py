"""Environment stubs for symbolic runs.

LawStub: a scipy.stats distribution (norm, t, chi2) as an uninterpreted function constrained,
at the finitely many points where the path applies it, by the law's documented qualitative
contract (range, strict monotonicity, symmetry, quantile = inverse of the cdf).
"""
import fractions
import numpy as np
import z3
from . import core
from .core import SReal, SInt, SBool, And, Or, Not, Implies, If
from .arrays import SymArray, SymScalar, plain, _lift_num, _real


class Opaque:
    """a parameter the code under analysis may only pass around (e.g. degrees of freedom):
    any arithmetic, comparison, hashing or conversion is an unsupported operation."""
    def __init__(self, value):
        object.__setattr__(self, '_value', value)

    def _no(self, *a, **k):
        raise core.UnsupportedSymbolic('operation on an opaque parameter')
    __add__ = __radd__ = __sub__ = __rsub__ = __mul__ = __rmul__ = __truediv__ = __rtruediv__ = _no
    __lt__ = __le__ = __gt__ = __ge__ = __eq__ = __ne__ = __bool__ = __int__ = __float__ = __index__ = _no
    __hash__ = _no

    def __repr__(self):
        return f'Opaque({self._value})'


def _k_term(k):
    """degrees of freedom -> z3 Int term, or a python key for opaque / concrete parameters"""
    if k is None:
        return None
    if isinstance(k, Opaque):
        return ('opaque', id(k), k._value)
    k = _lift_num(k)
    if isinstance(k, SInt):
        return k.t
    if isinstance(k, (int, np.integer)):
        return ('int', int(k), int(k))
    if isinstance(k, float) and float(k).is_integer():
        return ('int', int(k), int(k))
    raise core.UnsupportedSymbolic(f'degrees of freedom {k!r}')


class LawStub:
    """symmetric=True: normal / Student (sf(-x) = 1 - sf(x), sf(0) = 1/2);
    symmetric=False: chi-square on x >= 0 (sf(0,k)=1 for k>=1, sf(x,0)=NaN, sf(x<0)=1)."""

    def __init__(self, ex, name, symmetric=True):
        self.ex = ex
        self.name = name
        self.symmetric = symmetric
        self.points = []      # (x_term, k_term|None, y_term)  with x finite
        ex.law_stubs = getattr(ex, 'law_stubs', []) + [self]
        self.ppf_points = []  # (q_term, k_term, p_term)

    # ---- table of application points with pairwise monotonicity axioms
    def _same_k(self, k1, k2):
        if k1 is None and k2 is None:
            return True
        if k1 is None or k2 is None:
            return False
        if isinstance(k1, tuple) or isinstance(k2, tuple):
            if isinstance(k1, tuple) and isinstance(k2, tuple):
                return k1[:2] == k2[:2]
            raise core.UnsupportedSymbolic('mixing symbolic and concrete degrees of freedom')
        return z3.simplify(k1 == k2)

    def _point(self, x, k, y=None):
        ex = self.ex
        if y is None:
            y = ex.fresh_real(self.name + '_sf')
        for (x2, k2, y2) in self.points:
            same = self._same_k(k, k2)
            if core._is_false(same):
                continue
            ex.side(Implies(And(same, x < x2), y > y2))
            ex.side(Implies(And(same, x2 < x), y2 > y))
            ex.side(Implies(And(same, x == x2), y == y2))
        self.points.append((x, k, y))
        ex.side(z3.And(y >= 0, y <= 1))
        if self.symmetric:
            ex.side(Implies(x == 0, y == z3.RealVal('1/2')))
            ex.side(Implies(x > 0, z3.And(y > 0, y < z3.RealVal('1/2'))))
            ex.side(Implies(x < 0, z3.And(y > z3.RealVal('1/2'), y < 1)))
        else:
            ex.side(Implies(x <= 0, y == 1))
            ex.side(Implies(x > 0, z3.And(y > 0, y < 1)))
        return y

    # ---- scalar kernels
    def _sf1(self, x, k):
        x = _real(x)
        kt = _k_term(k)
        y = self._point(x.r, kt)
        r = If(x.pinf, z3.RealVal(0), If(x.ninf, z3.RealVal(1), y))
        nan = x.nan
        if not self.symmetric and kt is not None:
            nan = Or(nan, (kt[2] <= 0) if isinstance(kt, tuple) else (kt <= 0))
        return SReal(r, nan)

    def _ppf1(self, q, k):
        """quantile: the point p with cdf(p) = q  (q in (0,1); 0 -> -inf (or 0 for chi2), 1 -> +inf)"""
        ex = self.ex
        q = _real(q)
        kt = _k_term(k)
        p = ex.fresh_real(self.name + '_ppf')
        inside = And(q.is_fin(), q.r > 0, q.r < 1)
        # sf(p) = 1 - q
        self._point(p, kt, 1 - q.r)
        if self.symmetric:
            self._point(-p, kt, q.r)
        self.ppf_points.append((q.r, kt, p))
        nan = Or(q.nan, Not(q.is_fin()), q.r < 0, q.r > 1)
        pinf = And(Not(nan), q.r == 1)
        ninf = And(Not(nan), q.r == 0) if self.symmetric else False
        r = p if self.symmetric else If(And(Not(nan), q.r == 0), z3.RealVal(0), p)
        return SReal(If(Or(nan, pinf, ninf), z3.RealVal(0), r), nan, pinf, ninf)

    # ---- vectorised public API (as scipy)
    def _vec(self, f, x, k):
        if isinstance(x, np.ndarray):
            if isinstance(k, np.ndarray):
                raise core.UnsupportedSymbolic('array of degrees of freedom')
            res = np.frompyfunc(lambda v: f(v, k), 1, 1)(plain(x))
            if isinstance(res, np.ndarray):
                return res.view(SymArray)
            return SymArray(res)
        return SymScalar(f(x, k))      # scipy returns a numpy scalar for scalar input

    def sf(self, x, df=None):
        return self._vec(self._sf1, x, df)

    def cdf(self, x, df=None):
        s = self.sf(x, df)
        return 1.0 - s

    def ppf(self, q, df=None):
        return self._vec(self._ppf1, q, df)

    def isf(self, q, df=None):
        return self._vec(lambda v, k: self._ppf1(1 - _real(v), k), q, df)

    # ---- model refinement: make a counterexample consistent with the real law
    def pins(self, model, real_law):
        """constraints pinning every quantile point to the value of the real scipy law at the
        model's (q, k); the data then only have to be consistent with monotonicity."""
        keys, out = [], []
        for (q, k, p) in self.ppf_points:
            qv = model.eval(q, model_completion=True)
            qf = float(fractions.Fraction(qv.numerator_as_long(), qv.denominator_as_long())) \
                if z3.is_rational_value(qv) else float(qv.approx(20).as_fraction())
            args = []
            if isinstance(k, tuple):
                args = [k[2]]
            elif k is not None:
                kv = model.eval(k, model_completion=True).as_long()
                keys.append(k == kv)
                args = [kv]
            keys.append(q == z3.RealVal(fractions.Fraction(qf)))
            pv = float(real_law.ppf(qf, *args))
            if np.isfinite(pv):
                out.append(p == z3.RealVal(fractions.Fraction(pv)))
        return keys, out


def validate_law_axioms():
    """sanity test of the stub contract against real scipy (not part of the proof)"""
    from scipy.stats import norm, t, chi2
    xs = np.linspace(-6, 6, 101)
    for law, args in [(norm, ()), (t, (1,)), (t, (2,)), (t, (5,)), (t, (30,))]:
        s = law.sf(xs, *args)
        assert np.all(np.diff(s) < 0), 'sf strictly decreasing'
        assert np.allclose(law.sf(-xs, *args), 1 - s), 'symmetry'
        assert abs(law.sf(0.0, *args) - 0.5) < 1e-15
        for q in (0.001, 0.01, 0.25, 0.5, 0.75):
            assert abs(law.cdf(law.ppf(q, *args), *args) - q) < 1e-9
        assert np.isnan(law.sf(np.nan, *args)) and law.sf(np.inf, *args) == 0 and law.sf(-np.inf, *args) == 1
    xs = np.linspace(0, 40, 101)
    for k in (1, 2, 5, 30):
        s = chi2.sf(xs, k)
        assert np.all(np.diff(s) <= 0) and s[0] == 1.0
        mid = (s > 1e-9) & (s < 1 - 1e-9)
        assert np.all(np.diff(s[mid]) < 0)
        assert np.isnan(chi2.sf(np.nan, k)) and chi2.sf(np.inf, k) == 0
    assert np.isnan(chi2.sf(1.0, 0))
    return True
