"""SymArray: numpy.ndarray subclass (dtype=object) holding symbolic proxies.

Real numpy keeps doing broadcasting, reshaping, slicing, fancy indexing...; only the
element-wise kernels are dispatched to the proxies (``__array_ufunc__``), plus a handful of
array functions whose C implementation would coerce proxies (``__array_function__``).
"""
import numpy as np
import z3
from . import core
from .core import SBool, SInt, SReal, UnsupportedSymbolic, And, Or, Not


def _lift_num(x):
    """scalar operand -> proxy-compatible python object"""
    if isinstance(x, (SBool, SInt, SReal)):
        return x
    if isinstance(x, SymScalar):
        return object.__getattribute__(x, 'payload')
    if isinstance(x, np.ndarray) and x.ndim == 0 and x.dtype == object:
        return _lift_num(x.view(np.ndarray)[()])
    if isinstance(x, (np.bool_, bool)):
        return bool(x)
    if isinstance(x, (np.integer,)):
        return int(x)
    if isinstance(x, (np.floating,)):
        return float(x)
    return x


def _real(x):
    x = _lift_num(x)
    r = SReal.lift(x)
    if r is None:
        raise UnsupportedSymbolic(f'cannot lift {type(x).__name__} to SReal')
    return r


def _arith(op):
    def f(a, b):
        a, b = _lift_num(a), _lift_num(b)
        if isinstance(a, (SReal, float)) or isinstance(b, (SReal, float)):
            a, b = _real(a), _real(b)
        elif isinstance(a, SBool) and not isinstance(b, (SInt, SReal)):
            a = a._as_int()
        r = op(a, b)
        if r is NotImplemented:
            raise UnsupportedSymbolic(f'{op} on {type(a).__name__}, {type(b).__name__}')
        return r
    return f


def _cmp(op):
    def f(a, b):
        a, b = _lift_num(a), _lift_num(b)
        if isinstance(a, (SReal, float)) or isinstance(b, (SReal, float)):
            a, b = _real(a), _real(b)
        r = op(a, b)
        if r is NotImplemented:
            raise UnsupportedSymbolic(f'compare {type(a).__name__}, {type(b).__name__}')
        return r if isinstance(r, SBool) else SBool(bool(r))
    return f


def _b(x):
    x = _lift_num(x)
    if isinstance(x, SBool):
        return x
    if isinstance(x, bool):
        return SBool(x)
    if isinstance(x, (SInt, SReal)):
        return SBool(Not((x == 0).t))
    return SBool(bool(x))


def _sqrt(a):
    return _real(a).sqrt()


def _hypot(a, b):
    """IEEE hypot: +inf as soon as one argument is infinite (even if the other is NaN), else NaN-propagating"""
    a, b = _real(a), _real(b)
    base = (a * a + b * b).sqrt()
    return core.sreal_ite(Or(a.is_inf(), b.is_inf()), core.SReal(0, pinf=True), base)


def _abs(a):
    a = _lift_num(a)
    if isinstance(a, SInt):
        return abs(a)
    return abs(_real(a))


def _neg(a):
    a = _lift_num(a)
    return -a if isinstance(a, (SInt, SReal)) else -_real(a)


def _square(a):
    a = _lift_num(a)
    return a * a


def _power(a, p):
    a = _lift_num(a)
    p = _lift_num(p)
    if isinstance(p, (SInt, SReal, SBool)):
        raise UnsupportedSymbolic('symbolic exponent')
    if isinstance(a, SInt) and isinstance(p, int) and 0 <= p <= 4:
        r = SInt(1)
        for _ in range(p):
            r = r * a
        return r
    return _real(a) ** p


def _isclose_scalar(a, b, rtol=1e-05, atol=1e-08, equal_nan=False):
    a, b = _real(a), _real(b)
    fin = And(a.is_fin(), b.is_fin())
    import fractions
    tol = SReal(fractions.Fraction(atol)) + SReal(fractions.Fraction(rtol)) * abs(b)
    close = And(fin, (abs(a - b) <= tol).t)
    same_inf = Or(And(a.pinf, b.pinf), And(a.ninf, b.ninf))
    res = Or(close, same_inf)
    if equal_nan:
        res = Or(res, And(a.nan, b.nan))
    return SBool(res)


UFUNCS = {
    'add': _arith(lambda a, b: a + b),
    'subtract': _arith(lambda a, b: a - b),
    'multiply': _arith(lambda a, b: a * b),
    'true_divide': lambda a, b: _real(a) / _real(b),
    'divide': lambda a, b: _real(a) / _real(b),
    'floor_divide': _arith(lambda a, b: a // b),
    'negative': _neg,
    'positive': lambda a: _lift_num(a),
    'absolute': _abs,
    'fabs': lambda a: abs(_real(a)),
    'sqrt': _sqrt,
    'hypot': _hypot,
    'square': _square,
    'power': _power,
    'less': _cmp(lambda a, b: a < b),
    'less_equal': _cmp(lambda a, b: a <= b),
    'greater': _cmp(lambda a, b: a > b),
    'greater_equal': _cmp(lambda a, b: a >= b),
    'equal': _cmp(lambda a, b: a == b),
    'not_equal': _cmp(lambda a, b: a != b),
    'logical_and': lambda a, b: _b(a) & _b(b),
    'logical_or': lambda a, b: _b(a) | _b(b),
    'logical_xor': lambda a, b: _b(a) ^ _b(b),
    'logical_not': lambda a: ~_b(a),
    'bitwise_and': lambda a, b: _b(a) & _b(b),
    'bitwise_or': lambda a, b: _b(a) | _b(b),
    'bitwise_xor': lambda a, b: _b(a) ^ _b(b),
    'invert': lambda a: ~_b(a),
    'isnan': lambda a: _real(a).isnan(),
    'isinf': lambda a: _real(a).isinf(),
    'isfinite': lambda a: _real(a).isfinite(),
    'minimum': lambda a, b: core.smin(a, b),
    'maximum': lambda a, b: core.smax(a, b),
}

_REDUCE_INIT = {'add': 0, 'multiply': 1, 'logical_and': True, 'logical_or': False,
                'bitwise_and': True, 'bitwise_or': False}


def plain(x):
    """view without the subclass (so that numpy does not call us back)"""
    if isinstance(x, SymArray):
        return x.view(np.ndarray)
    if isinstance(x, SymScalar):
        return object.__getattribute__(x, 'payload')
    return x


def wrap(x):
    if isinstance(x, np.ndarray) and x.dtype == object and not isinstance(x, SymArray):
        return x.view(SymArray)
    return x


class SymArray(np.ndarray):
    __array_priority__ = 100

    def __new__(cls, data):
        a = np.empty(np.shape(data), dtype=object)
        if a.ndim == 0:
            a[()] = data
        else:
            # element-wise fill (np.asarray would try to iterate proxies)
            src = np.array(data, dtype=object) if not isinstance(data, np.ndarray) else data
            a[...] = src
        return a.view(cls)

    # ------------------------------------------------------------------ ufuncs
    def __array_ufunc__(self, ufunc, method, *inputs, out=None, **kwargs):
        name = ufunc.__name__
        impl = UFUNCS.get(name)
        if impl is None:
            raise UnsupportedSymbolic(f'ufunc {name}')
        args = [plain(x) for x in inputs]
        where = kwargs.pop('where', True)
        if where is not True:
            raise UnsupportedSymbolic(f'ufunc {name} with where=')
        if method == '__call__':
            kwargs.pop('casting', None)
            kwargs.pop('dtype', None)
            if kwargs:
                raise UnsupportedSymbolic(f'ufunc {name} kwargs {sorted(kwargs)}')
            res = np.frompyfunc(impl, ufunc.nin, 1)(*args)
            if out is not None:
                o = out[0]
                plain(o)[...] = res
                return o
            if isinstance(res, np.ndarray):
                return res.view(SymArray)
            if not any(isinstance(x, np.ndarray) for x in inputs):
                return SymScalar.wrap(res)   # only numpy scalars in: numpy scalar out
            return SymArray(res)         # 0-d array in: stays a (0-d) array
        if method == 'reduce':
            (a,) = args
            axis = kwargs.pop('axis', 0)
            keepdims = kwargs.pop('keepdims', False)
            kwargs.pop('dtype', None)
            initial = kwargs.pop('initial', None)
            if initial is None or initial is np._NoValue:
                initial = _REDUCE_INIT.get(name, None)
            if kwargs.get('out') is not None or out is not None:
                raise UnsupportedSymbolic('reduce with out=')
            a = np.asarray(a, dtype=object)
            if axis is None:
                axes = tuple(range(a.ndim))
            elif isinstance(axis, tuple):
                axes = axis
            else:
                axes = (axis,)
            axes = tuple(sorted(ax % a.ndim for ax in axes)) if a.ndim else ()
            # move reduced axes last, fold in C order
            keep = [i for i in range(a.ndim) if i not in axes]
            at = np.transpose(a, keep + list(axes)) if a.ndim else a
            kshape = tuple(a.shape[i] for i in keep)
            flat = at.reshape(kshape + (-1,)) if a.ndim else at.reshape((1,))
            res = np.empty(kshape, dtype=object)
            for idx in np.ndindex(*kshape):
                cells = list(flat[idx])
                if initial is None:
                    if not cells:
                        raise ValueError('zero-size array to reduction operation '
                                         f'{name} which has no identity')
                    acc = cells[0]
                    cells = cells[1:]
                else:
                    acc = initial
                for c in cells:
                    acc = impl(acc, c)
                res[idx] = acc
            if keepdims:
                shp = [1 if i in axes else a.shape[i] for i in range(a.ndim)]
                res = res.reshape(shp)
            if res.ndim == 0:
                return SymScalar.wrap(res[()])     # numpy returns a numpy scalar here
            return res.view(SymArray)
        raise UnsupportedSymbolic(f'ufunc {name} method {method}')

    # ------------------------------------------------------------------ functions
    def __array_function__(self, func, types, args, kwargs):
        h = FUNCS.get(func)
        if h is not None:
            return h(*args, **kwargs)
        # default: let numpy run its own (python-level) implementation on the subclass
        return super().__array_function__(func, types, args, kwargs)

    # ------------------------------------------------------------------ indexing
    @staticmethod
    def _conc_index(idx):
        """concretise symbolic parts of an index (forks)"""
        if isinstance(idx, tuple):
            return tuple(SymArray._conc_index(i) for i in idx)
        if isinstance(idx, np.ndarray) and idx.dtype == object:
            flat = [x for x in plain(idx).ravel()]
            if all(isinstance(x, (SBool, bool, np.bool_)) for x in flat):
                return np.array([bool(x) for x in flat], dtype=bool).reshape(idx.shape)
            return np.array([int(x) for x in flat], dtype=np.intp).reshape(idx.shape)
        if isinstance(idx, SInt):
            return int(idx)
        if isinstance(idx, SBool):
            return bool(idx)
        if isinstance(idx, slice):
            c = SymArray._conc_index
            return slice(c(idx.start), c(idx.stop), c(idx.step))
        return idx

    def __getitem__(self, idx):
        r = super().__getitem__(self._conc_index(idx))
        return r

    def __setitem__(self, idx, val):
        # a[mask] = v with a symbolic boolean mask of a's shape: element-wise ite, no forking
        if isinstance(idx, np.ndarray) and idx.dtype == object and idx.shape == self.shape and \
                (np.ndim(val) == 0 or np.shape(val) == self.shape):
            flat = plain(idx).ravel() if idx.ndim else [plain(idx)[()]]
            if all(isinstance(x, (SBool, bool, np.bool_)) for x in flat):
                new = _where(idx, val, self)
                super().__setitem__(Ellipsis, plain(new) if isinstance(new, np.ndarray) else new)
                return
        super().__setitem__(self._conc_index(idx), plain(val) if isinstance(val, np.ndarray) else val)

    # ------------------------------------------------------------------ misc methods
    def all(self, axis=None, out=None, keepdims=False, **kw):
        return np.logical_and.reduce(self, axis=axis, keepdims=keepdims)

    def any(self, axis=None, out=None, keepdims=False, **kw):
        return np.logical_or.reduce(self, axis=axis, keepdims=keepdims)

    def sum(self, axis=None, dtype=None, out=None, keepdims=False, **kw):
        return np.add.reduce(self, axis=axis, keepdims=keepdims)

    def min(self, axis=None, out=None, keepdims=False, **kw):
        return np.minimum.reduce(self, axis=axis, keepdims=keepdims)

    def max(self, axis=None, out=None, keepdims=False, **kw):
        return np.maximum.reduce(self, axis=axis, keepdims=keepdims)

    def __bool__(self):
        if self.size != 1:
            raise ValueError('The truth value of an array with more than one element is '
                             'ambiguous. Use a.any() or a.all()')
        return bool(plain(self).ravel()[0])

    def __float__(self):
        raise UnsupportedSymbolic('float() of a symbolic array')

    def __repr__(self):
        return f'SymArray(shape={self.shape})'

    __str__ = __repr__

    def __format__(self, spec):
        return repr(self)

    def argsort(self, axis=-1, kind=None, order=None):
        return sym_argsort(self, axis=axis)

    # numpy's object loops call a method named after the ufunc on each *element*; a 0-d SymArray
    # can end up as an element of a plain object array (np.array([zero_d_array]))
    def fabs(self):
        return np.fabs(self)

    def sqrt(self):
        return np.sqrt(self)


class SymScalar(np.float32):
    """A numpy *scalar* (instance of np.generic; np.float32-based so that it is NOT a Python float,
    which Dataset.__init__ would re-wrap with np.float64()) carrying a symbolic real.

    Needed because valjean distinguishes np.generic from np.ndarray with isinstance().  The
    float value stored in the C struct is a meaningless 0.0: every Python-level access is
    intercepted (ufuncs through __array_ufunc__, operators below) and attribute access is
    white-listed so that nothing can silently read the 0.0.
    """
    _ALLOWED = frozenset(('payload', 'shape', 'ndim', 'size', 'dtype', 'squeeze', 'copy', 'all', 'any',
                          'sqrt', 'isnan', 'reshape', 'ravel', 'flatten', 'item', 'T', 'astype',
                          'fabs', 'tolist', 'view', 'sum', 'min', 'max', 'model_value', 'data'))

    def __new__(cls, payload):
        o = np.float32.__new__(cls, 0.0)
        object.__setattr__(o, 'payload', payload)
        return o

    @staticmethod
    def wrap(res):
        if isinstance(res, (SReal, SInt)):
            return SymScalar(res)
        return res

    def __getattribute__(self, name):
        if name.startswith('__') or name in SymScalar._ALLOWED or name.startswith('_'):
            return object.__getattribute__(self, name)
        raise UnsupportedSymbolic(f'attribute {name!r} of a symbolic numpy scalar')

    def __setattr__(self, name, val):
        raise UnsupportedSymbolic('setattr on a symbolic numpy scalar')

    # ---- numpy protocols
    def __array_ufunc__(self, ufunc, method, *inputs, out=None, **kwargs):
        return SymArray.__array_ufunc__(None, ufunc, method, *inputs, out=out, **kwargs)

    def __array_function__(self, func, types, args, kwargs):
        h = FUNCS.get(func)
        if h is not None:
            return h(*args, **kwargs)
        if func in (np.shape, np.ndim, np.size) and len(args) == 1 and not kwargs:
            return {np.shape: (), np.ndim: 0, np.size: 1}[func]
        raise UnsupportedSymbolic(f'numpy function {func.__name__} on a symbolic numpy scalar')

    def __array__(self, dtype=None, copy=None):
        raise UnsupportedSymbolic('conversion of a symbolic numpy scalar to a plain array')

    # ---- ndarray-like methods
    shape = ()
    ndim = 0
    size = 1

    @property
    def dtype(self):
        return np.dtype(object)

    def squeeze(self, axis=None):
        return self

    def copy(self, order='C'):
        return SymScalar(self.payload)

    def item(self):
        return self.payload

    def all(self, *a, **k):
        return _b(self.payload)

    def any(self, *a, **k):
        return _b(self.payload)

    def sum(self, *a, **k):
        return self

    def min(self, *a, **k):
        return self

    def max(self, *a, **k):
        return self

    def reshape(self, *shape, **k):
        return SymArray(self.payload).reshape(*shape)

    def ravel(self, *a):
        return SymArray(self.payload).reshape((1,))
    flatten = ravel

    def astype(self, dtype, **k):
        if np.dtype(dtype) == object:
            return self
        raise UnsupportedSymbolic('astype on a symbolic numpy scalar')

    def __getitem__(self, idx):
        return SymArray(self.payload)[idx]

    # ---- operators
    def _bin(self, o, f, swap=False):
        if isinstance(o, np.ndarray) and o.ndim > 0:
            return NotImplemented
        a, b = self.payload, plain(o)
        if isinstance(b, np.ndarray):
            b = b[()]
        r = f(b, a) if swap else f(a, b)
        return SymScalar.wrap(r)

    def __add__(self, o):
        return self._bin(o, UFUNCS['add'])

    def __radd__(self, o):
        return self._bin(o, UFUNCS['add'], True)

    def __sub__(self, o):
        return self._bin(o, UFUNCS['subtract'])

    def __rsub__(self, o):
        return self._bin(o, UFUNCS['subtract'], True)

    def __mul__(self, o):
        return self._bin(o, UFUNCS['multiply'])

    def __rmul__(self, o):
        return self._bin(o, UFUNCS['multiply'], True)

    def __truediv__(self, o):
        return self._bin(o, UFUNCS['true_divide'])

    def __rtruediv__(self, o):
        return self._bin(o, UFUNCS['true_divide'], True)

    def __pow__(self, o, mod=None):
        return self._bin(o, UFUNCS['power'])

    def __neg__(self):
        return SymScalar.wrap(_neg(self.payload))

    def __pos__(self):
        return self

    def __abs__(self):
        return SymScalar.wrap(_abs(self.payload))

    def __lt__(self, o):
        return self._bin(o, UFUNCS['less'])

    def __le__(self, o):
        return self._bin(o, UFUNCS['less_equal'])

    def __gt__(self, o):
        return self._bin(o, UFUNCS['greater'])

    def __ge__(self, o):
        return self._bin(o, UFUNCS['greater_equal'])

    def __eq__(self, o):
        return self._bin(o, UFUNCS['equal'])

    def __ne__(self, o):
        return self._bin(o, UFUNCS['not_equal'])

    def __bool__(self):
        return bool(_b(self.payload))

    def __float__(self):
        raise UnsupportedSymbolic('float() of a symbolic numpy scalar')

    def __int__(self):
        raise UnsupportedSymbolic('int() of a symbolic numpy scalar')

    def __hash__(self):
        raise UnsupportedSymbolic('hash() of a symbolic numpy scalar')

    def __repr__(self):
        return f'SymScalar({self.payload!r})'

    __str__ = __repr__

    def __format__(self, spec):
        return repr(self)

    def __reduce__(self):
        raise UnsupportedSymbolic('pickling a symbolic numpy scalar')


# ---------------------------------------------------------------------- array functions
def _where(cond, x=None, y=None):
    if x is None and y is None:
        c = np.array([bool(v) for v in plain(np.asarray(cond, dtype=object)).ravel()]
                     ).reshape(np.shape(cond))
        return np.where(c)
    def conv(v):
        v = plain(v)
        if isinstance(v, np.ndarray):
            return v
        if isinstance(v, (SBool, SInt, SReal)):
            a = np.empty((), dtype=object)
            a[()] = v
            return a
        return np.asarray(v)
    cond, x, y = conv(cond), conv(x), conv(y)

    def pick(c, a, b):
        c = _lift_num(c)
        if isinstance(c, (bool,)):
            return _lift_num(a) if c else _lift_num(b)
        c = _b(c)
        if isinstance(c.t, bool):
            return _lift_num(a) if c.t else _lift_num(b)
        a, b = _lift_num(a), _lift_num(b)
        if isinstance(a, SBool) or isinstance(b, SBool) or (isinstance(a, bool) and isinstance(b, bool)):
            return core.sbool_ite(c.t, _b(a).t, _b(b).t)
        if isinstance(a, (SReal, float)) or isinstance(b, (SReal, float)):
            return core.sreal_ite(c.t, a, b)
        return core.sint_ite(c.t, a, b)
    res = np.frompyfunc(pick, 3, 1)(cond, x, y)
    return wrap(res) if isinstance(res, np.ndarray) else res


def _count_nonzero(a, axis=None, **kw):
    a = plain(np.asarray(a, dtype=object))
    if getattr(core.CUR, 'count_mode', None) == 'fork' and axis is None:
        return int(sum(1 for v in a.ravel() if bool(_b(v))))      # concretised: forks per cell
    if getattr(core.CUR, 'logic', None) == 'QF_NRA':
        # keep integer-sorted terms out of pure real-arithmetic queries
        ints = np.frompyfunc(lambda v: SReal(core.If(_b(v).t, z3.RealVal(1), z3.RealVal(0))), 1, 1)(a)
    else:
        ints = np.frompyfunc(lambda v: _b(v)._as_int(), 1, 1)(a)
    return np.add.reduce(wrap(np.asarray(ints, dtype=object)), axis=axis)


def _zeros_like(a, dtype=None, **kw):
    if dtype is not None and np.dtype(dtype) != object:
        return np.zeros(np.shape(a), dtype=dtype)
    return np.zeros(np.shape(a), dtype=float)


def _ones_like(a, dtype=None, **kw):
    if dtype is not None and np.dtype(dtype) != object:
        return np.ones(np.shape(a), dtype=dtype)
    return np.ones(np.shape(a), dtype=float)


def _full_like(a, fill_value, dtype=None, **kw):
    if dtype is not None and np.dtype(dtype) != object:
        return np.full(np.shape(a), fill_value, dtype=dtype)
    if isinstance(fill_value, (SBool, SInt, SReal)):
        r = np.empty(np.shape(a), dtype=object)
        r[...] = fill_value
        return r.view(SymArray)
    return np.full(np.shape(a), fill_value)


def _isclose(a, b, rtol=1e-05, atol=1e-08, equal_nan=False):
    f = np.frompyfunc(lambda x, y: _isclose_scalar(x, y, rtol, atol, equal_nan), 2, 1)
    res = f(plain(np.asarray(a)), plain(np.asarray(b)))
    return wrap(res) if isinstance(res, np.ndarray) else res


def _allclose(a, b, rtol=1e-05, atol=1e-08, equal_nan=False):
    return bool(np.logical_and.reduce(wrap(np.asarray(_isclose(a, b, rtol, atol, equal_nan),
                                                      dtype=object)), axis=None))


def _array_equal(a1, a2, equal_nan=False):
    a1, a2 = np.asarray(a1), np.asarray(a2)
    if a1.shape != a2.shape:
        return False
    eq = np.equal(wrap(np.asarray(plain(a1), dtype=object)), a2)
    return bool(np.logical_and.reduce(eq, axis=None)) if isinstance(eq, np.ndarray) else bool(eq)


def _array_equiv(a1, a2):
    return _array_equal(a1, a2)


def sym_argsort(a, axis=-1, **kw):
    """numpy.argsort stub: an arbitrary permutation that sorts (NaN last, ties free).

    The permutation is symbolic (fresh ints constrained to be a sorting permutation) and is
    concretised by forking: each path is one permutation numpy could return.
    """
    import itertools
    ex = core.CUR
    a = plain(np.asarray(a, dtype=object))
    if a.ndim != 1:
        raise UnsupportedSymbolic('argsort on ndim != 1')
    n = a.shape[0]
    if all(isinstance(_lift_num(v), (int, float)) for v in a):
        return np.argsort(np.array([_lift_num(v) for v in a]))
    vals = [_real(v) for v in a]
    perms = list(itertools.permutations(range(n)))
    conc = perms[ex.choice(len(perms), 'argsort-permutation')]
    for i in range(n - 1):
        x, y = vals[conc[i]], vals[conc[i + 1]]
        # sorted: not (y < x), NaN last
        ok = Or(y.nan, And(Not(x.nan), Not(y._lt(x))))
        ex.assume(ok)
    ex.notes.setdefault('argsort', []).append(list(conc))
    return np.array(conc, dtype=np.intp)


def _argsort(a, axis=-1, kind=None, order=None, **kw):
    return sym_argsort(a, axis=axis)


def _amin(a, axis=None, out=None, keepdims=False, **kw):
    return np.minimum.reduce(wrap(np.asarray(plain(a), dtype=object)), axis=axis, keepdims=keepdims)


def _amax(a, axis=None, out=None, keepdims=False, **kw):
    return np.maximum.reduce(wrap(np.asarray(plain(a), dtype=object)), axis=axis, keepdims=keepdims)


def _sum(a, axis=None, dtype=None, out=None, keepdims=False, **kw):
    return np.add.reduce(wrap(np.asarray(plain(a), dtype=object)), axis=axis, keepdims=keepdims)


def _all(a, axis=None, out=None, keepdims=False, **kw):
    return np.logical_and.reduce(wrap(np.asarray(plain(a), dtype=object)), axis=axis, keepdims=keepdims)


def _any(a, axis=None, out=None, keepdims=False, **kw):
    return np.logical_or.reduce(wrap(np.asarray(plain(a), dtype=object)), axis=axis, keepdims=keepdims)


def _isnan_fn(a):
    return np.isnan(a)


def _sort(a, axis=-1, kind=None, order=None, **kw):
    p = plain(np.asarray(a, dtype=object))
    if p.ndim != 1:
        raise UnsupportedSymbolic('sort on ndim != 1')
    return wrap(p[sym_argsort(p)])


def _searchsorted(a, v, side='left', sorter=None):
    """insertion points; concretised by forking on the comparisons"""
    if sorter is not None:
        raise UnsupportedSymbolic('searchsorted with sorter')
    a = [_real(x) for x in plain(np.asarray(a, dtype=object)).ravel()]
    vv = np.asarray(plain(v), dtype=object) if isinstance(v, np.ndarray) else None

    def one(x):
        x = _real(x)
        k = 0
        for y in a:
            c = SBool(y._lt(x)) if side == 'left' else SBool(Or(y._lt(x), y._eq(x)))
            if bool(c):
                k += 1
            else:
                break
        return k
    if vv is None:
        return one(v)
    out = np.array([one(x) for x in vv.ravel()], dtype=np.intp).reshape(vv.shape)
    return out


FUNCS = {
    np.sort: _sort,
    np.searchsorted: _searchsorted,
    np.where: _where,
    np.count_nonzero: _count_nonzero,
    np.zeros_like: _zeros_like,
    np.ones_like: _ones_like,
    np.full_like: _full_like,
    np.isclose: _isclose,
    np.allclose: _allclose,
    np.array_equal: _array_equal,
    np.array_equiv: _array_equiv,
    np.argsort: _argsort,
    np.amin: _amin, np.min: _amin,
    np.amax: _amax, np.max: _amax,
    np.sum: _sum,
    np.all: _all,
    np.any: _any,
}


# ---------------------------------------------------------------------- numpy facade
def _has_sym(x):
    if isinstance(x, (SBool, SInt, SReal, SymScalar, SymArray)):
        return True
    if isinstance(x, np.ndarray):
        return x.dtype == object
    if isinstance(x, (list, tuple)):
        return any(_has_sym(e) for e in x)
    return False


def sym_stack(x):
    """what np.array(nested list) would build, without numpy's C-level coercion of the scalars"""
    def to_obj(e):
        if isinstance(e, SymScalar):
            return object.__getattribute__(e, 'payload')
        if isinstance(e, np.ndarray):
            p = plain(e)
            if p.ndim == 0:
                return to_obj(p[()])
            return [to_obj(c) for c in p]
        if isinstance(e, (list, tuple)):
            return [to_obj(c) for c in e]
        return _lift_num(e)
    nested = to_obj(x)

    def shape_of(n):
        if isinstance(n, list):
            if not n:
                return (0,)
            sub = [shape_of(c) for c in n]
            if any(s != sub[0] for s in sub):
                raise UnsupportedSymbolic('ragged nested sequence of symbolic values')
            return (len(n),) + sub[0]
        return ()
    shp = shape_of(nested)
    a = np.empty(shp, dtype=object)

    def fill(n, idx):
        if isinstance(n, list):
            for i, c in enumerate(n):
                fill(c, idx + (i,))
        else:
            a[idx] = n
    fill(nested, ())
    return a.view(SymArray)


class _F64Meta(type):
    def __instancecheck__(cls, x):
        return isinstance(x, np.float64) or isinstance(x, SymScalar)

    def __call__(cls, x=0.0):
        x = _lift_num(x) if not isinstance(x, SymScalar) else x
        if isinstance(x, SymScalar):
            return x
        if isinstance(x, (SReal, SInt)):
            return SymScalar(_real(x))
        return np.float64(x)


class _F64(metaclass=_F64Meta):
    """np.float64 / np.float_ as seen through the facade: conversion keeps symbolic values"""


class NumpyFacade:
    """Stands in for the ``np`` global of a valjean module during symbolic runs.  Identical to
    numpy except that (nested) lists/tuples holding symbolic values are stacked into a SymArray
    *before* numpy's C-level array coercion could read the meaningless float of a SymScalar."""

    def __init__(self):
        self.__dict__['_cache'] = {}

    def __getattr__(self, name):
        attr = getattr(np, name)
        if name in ('float_', 'float64', 'double'):
            return _F64
        if isinstance(attr, type) or not callable(attr):
            return attr
        c = self._cache.get(name)
        if c is None:
            def wrapped(*a, __f=attr, **k):
                a = [sym_stack(x) if isinstance(x, (list, tuple)) and _has_sym(x) else x for x in a]
                k = {kk: (sym_stack(v) if isinstance(v, (list, tuple)) and _has_sym(v) else v)
                     for kk, v in k.items()}
                return __f(*a, **k)
            wrapped.__name__ = name
            for at in ('reduce', 'accumulate', 'outer', 'at'):
                if hasattr(attr, at):
                    setattr(wrapped, at, getattr(attr, at))
            c = self._cache[name] = wrapped
        return c


import contextlib


@contextlib.contextmanager
def numpy_facade(*modules):
    """replace the ``np`` global of the given modules by a NumpyFacade (symbolic mode only)"""
    fac = NumpyFacade()
    saved = []
    for m in modules:
        if getattr(m, 'np', None) is np:
            saved.append(m)
            m.np = fac
    try:
        yield fac
    finally:
        for m in saved:
            m.np = np


# ---------------------------------------------------------------------- helpers for harnesses
def sym_real_array(ex, name, shape, **kw):
    """array of registered symbolic reals (symbolic mode) or floats (replay mode)"""
    shape = tuple(shape)
    if ex.symbolic:
        a = np.empty(shape, dtype=object)
        for idx in np.ndindex(*shape):
            a[idx] = ex.real(f'{name}{list(idx)}', **kw)
        return a.view(SymArray)
    a = np.empty(shape, dtype=float)
    for idx in np.ndindex(*shape):
        a[idx] = ex.real(f'{name}{list(idx)}', **kw)
    return a


def sym_real_scalar(ex, name, **kw):
    """numpy scalar: SymScalar (symbolic mode) or np.float64 (replay mode)"""
    x = ex.real(name, **kw)
    return SymScalar(x) if ex.symbolic else np.float64(x)
