"""Mode-agnostic oracle helpers: the same harness text runs on proxies (symbolic mode, exact
extended-real semantics) and on float64 (replay mode, tolerance for rounding)."""
import math
import numpy as np
from .core import SBool, SInt, SReal, And, Or, Not, zbool

RTOL = 1e-9
ATOL = 1e-300


def is_sym(x):
    return isinstance(x, (SBool, SInt, SReal))


def eq(a, b):
    """numerically equal (NaN never equal)"""
    if is_sym(a) or is_sym(b):
        return (SReal.lift(a) == SReal.lift(b)) if not (isinstance(a, (SInt, int)) and isinstance(b, (SInt, int))) \
            else (a == b)
    a, b = float(a), float(b)
    if math.isnan(a) or math.isnan(b):
        return False
    if math.isinf(a) or math.isinf(b):
        return a == b
    return abs(a - b) <= max(RTOL * max(abs(a), abs(b)), ATOL)


def same(a, b):
    """identical, NaN identical to NaN ('unchanged' oracle; exact also in replay mode)"""
    if is_sym(a) or is_sym(b):
        if isinstance(a, SBool) or isinstance(b, SBool):
            return a == b
        if isinstance(a, (SInt, int)) and isinstance(b, (SInt, int)):
            return a == b
        return SReal.lift(a).ident(b)
    try:
        fa, fb = float(a), float(b)
    except (TypeError, ValueError):
        return a == b
    if math.isnan(fa) and math.isnan(fb):
        return True
    return fa == fb


def isnan(a):
    if isinstance(a, SReal):
        return a.isnan()
    if is_sym(a):
        return False
    return math.isnan(float(a))


def isinf(a):
    if isinstance(a, SReal):
        return a.isinf()
    if is_sym(a):
        return False
    return math.isinf(float(a))


def isfinite(a):
    if isinstance(a, SReal):
        return a.isfinite()
    if is_sym(a):
        return True
    return math.isfinite(float(a))


def ge0(a):
    if is_sym(a):
        return a >= 0
    return float(a) >= 0.0


def band(*xs):
    """conjunction without forking"""
    if any(is_sym(x) for x in xs):
        return SBool(And(*[zbool(x) if is_sym(x) else bool(x) for x in xs]))
    return all(bool(x) for x in xs)


def bor(*xs):
    if any(is_sym(x) for x in xs):
        return SBool(Or(*[zbool(x) if is_sym(x) else bool(x) for x in xs]))
    return any(bool(x) for x in xs)


def bnot(x):
    if is_sym(x):
        return SBool(Not(zbool(x)))
    return not bool(x)


def implies(a, b):
    return bor(bnot(a), b)


def iff(a, b):
    return band(implies(a, b), implies(b, a))


def sqrt(a):
    if isinstance(a, SReal):
        return a.sqrt()
    return float(np.sqrt(np.float64(a)))


def sabs(a):
    return abs(a)


def cells(a):
    """flat list (C order) of the cells of an array or scalar"""
    if isinstance(a, np.ndarray):
        p = a.view(np.ndarray)
        return [p[idx] for idx in np.ndindex(*p.shape)]
    if type(a).__name__ == 'SymScalar':
        return [object.__getattribute__(a, 'payload')]
    return [a]
