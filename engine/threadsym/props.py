"""Property encodings over the product (monitors and state predicates)."""
import z3
from .bmc import BW
from .roles import KINDS as _KINDS

N_KINDS = len(_KINDS)

WAITING, PENDING, DONE, FAILED, SKIPPED = 0, 1, 2, 3, 4


def init_common(prod, empty_env=True):
    p = prod.pre
    cfg = prod.cfg
    cs = [p['pc0'] == 0, p['st0'], z3.Not(p['fin0']), p['qh'] == 0, p['qt'] == 0, p['qu'] == 0,
          p['cvo'] == -1, p['elo'] == -1, p['clk'] >= 0]
    for t in range(1, prod.T):
        cs += [p[f'pc{t}'] == 0, z3.Not(p[f'st{t}']), z3.Not(p[f'fin{t}'])]
    for t in range(prod.T):
        cs.append(z3.Not(p[f'cvw{t}']))
    for i in range(cfg.n):
        cs += [p[f'x{i}'] == 0, p[f'kind{i}'] >= 0, p[f'kind{i}'] < N_KINDS]
        if empty_env:
            cs.append(z3.Not(p[f'p{i}']))
            for f in prod.schema.fields_of(i):
                cs.append(z3.Not(p[f'h{i}_{f}']))
    for i in range(cfg.n, len(prod.schema.tasks)):          # extra (non-task) entries start absent
        cs.append(z3.Not(p[f'p{i}']))
        for f in prod.schema.fields_of(i):
            cs.append(z3.Not(p[f'h{i}_{f}']))
    return z3.And(*cs)


def deps_of(cfg, i):
    return sorted({j for (a, j) in cfg.hard if a == i} | {j for (a, j) in cfg.soft if a == i})


def hard_deps_of(cfg, i):
    return sorted({j for (a, j) in cfg.hard if a == i})


def payload_code(prod, j, tag='new'):
    aut = prod.master
    obj = (aut.payloads if tag == 'new' else aut.old_payloads)[j]
    return aut.intern.code(obj)


def c01_ok(prod, i, pre):
    """state predicate: task i may start -- every dependency final, DONE dependencies published"""
    cs = []
    for j in deps_of(prod.cfg, i):
        st = pre[f'v{j}_status']
        final = z3.And(pre[f'p{j}'], pre[f'h{j}_status'], z3.Or(st == DONE, st == FAILED, st == SKIPPED))
        pub = [pre[f'h{j}_result'], pre[f'v{j}_result'] == payload_code(prod, j)]
        if prod.cfg.shared:             # ... and its part of the shared key
            n = prod.cfg.n
            nm = prod.cfg.names[j]
            pub += [pre[f'p{n}'], pre[f'h{n}_{nm}'], pre[f'v{n}_{nm}'] == payload_code(prod, j)]
        published = z3.Implies(z3.And(st == DONE, pre[f'kind{j}'] == 0), z3.And(*pub))
        cs.append(z3.And(final, published))
    return z3.And(*cs) if cs else z3.BoolVal(True)


def add_c01_monitor(prod):
    def fn(t, e, pre):
        i = int(e.label[e.label.index('(') + 1:e.label.index(')')])
        return z3.Or(pre['bad01'], z3.Not(c01_ok(prod, i, pre)))
    prod.add_monitor('bad01', 'bool', 'do(', fn)


def all_terminal(prod):
    """every STARTED thread has finished (a worker of the pool that was never started has nothing to finish)"""
    return z3.And(prod.terminal(0), *[z3.Or(z3.Not(prod.pre[f'st{t}']), prod.terminal(t)) for t in range(1, prod.T)])


def deadlock(prod):
    """nothing can move although some thread has not finished"""
    return z3.And(z3.Not(prod.any_enabled), z3.Not(all_terminal(prod)))


def spec_status(cfg, kinds):
    """F(graph, kinds) as z3 terms: final status of each task (tasks in any order; recursion on hard deps)"""
    memo = {}

    def F(i, seen=()):
        if i in memo:
            return memo[i]
        if i in seen:
            raise ValueError('cyclic')
        bad = [z3.Or(F(j, seen + (i,)) == FAILED, F(j, seen + (i,)) == SKIPPED) for j in hard_deps_of(cfg, i)]
        own = z3.If(kinds[i] == 0, z3.BitVecVal(DONE, BW), z3.BitVecVal(FAILED, BW))
        r = z3.If(z3.Or(*bad), z3.BitVecVal(SKIPPED, BW), own) if bad else own
        memo[i] = r
        return r
    return [F(i) for i in range(cfg.n)]
