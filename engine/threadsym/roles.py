"""Role harnesses: the real master / worker code with stub primitives, for extraction."""
import types
import threading
import z3
from engine.symrun.core import Explorer
from .extract import (Ctx, Automaton, Schema, Intern, SymEnvDict, SymRLock, SymCondition, SymQueue, SymTime,
                      Cut, NewField, ModelError)

KINDS = ['done', 'failed', 'raises', 'none', 'triple', 'bogus-status', 'update-not-a-mapping', 'update-empty-non-mapping',
         'non-final-status', 'own-entry-not-a-mapping', 'system-exit']


class Payload:
    def __init__(self, i, tag='new'):
        self.i, self.tag = i, tag

    def __repr__(self):
        return f'Payload({self.i},{self.tag})'

    def __eq__(self, o):
        return isinstance(o, Payload) and (o.i, o.tag) == (self.i, self.tag)

    def __hash__(self):
        return hash((self.i, self.tag))


def make_probe_tasks(names, ctx_ref, payloads, shared=False):
    """probe tasks: do() is a synchronisation point, then returns an object of the solver-chosen kind"""
    from valjean.cosette.task import Task, TaskStatus

    class ProbeTask(Task):
        def __init__(self, name, i):
            super().__init__(name)
            self.i = i

        def do(self, env, config):
            ctx = ctx_ref[0]
            i = self.i
            if ctx is None:                 # concrete warm-up run (Config.prior)
                return {self.name: {'result': payloads[i]}}, TaskStatus.DONE

            def upd(c):
                c.write(f'x{i}', c.read(f'x{i}') + 1)
            ctx.sync(f'do({i})', updates=upd)
            k = ctx.ex.choice(len(KINDS), f'kind{i}')
            ctx.ex.solver.add(ctx.read(f'kind{i}') == k)
            kind = KINDS[k]
            upd_ok = {self.name: {'result': payloads[i]}}
            if shared:
                upd_ok['shared'] = {self.name: payloads[i]}
            if kind == 'done':
                return upd_ok, TaskStatus.DONE
            if kind == 'failed':
                return upd_ok, TaskStatus.FAILED
            if kind == 'raises':
                raise RuntimeError('probe task failure')
            if kind == 'none':
                return None
            if kind == 'triple':
                return upd_ok, TaskStatus.DONE, 'extra'
            if kind == 'bogus-status':
                return upd_ok, 'bogus'
            if kind == 'update-empty-non-mapping':
                return [], TaskStatus.DONE          # falsy, but not a mapping either
            if kind == 'non-final-status':
                return upd_ok, TaskStatus.WAITING   # a task status, but not one a finished task can have
            if kind == 'own-entry-not-a-mapping':
                return {self.name: 5}, TaskStatus.DONE
            if kind == 'system-exit':
                raise SystemExit(3)                 # e.g. user code calling sys.exit()
            return 42, TaskStatus.DONE
    return [ProbeTask(n, i) for i, n in enumerate(names)]


class Config:
    """one scheduling configuration: tasks, hard/soft edges, number of workers"""
    def __init__(self, n_tasks, hard, soft, n_workers, prior=None, shared=False):
        self.shared = shared            # successful tasks also publish under ONE shared environment key
        self.prior = prior              # (hard, soft) of a graph scheduled EARLIER in the process with the same task objects
        self.n = n_tasks
        self.hard = sorted(hard)        # (i, j): task i depends (hard) on task j
        self.soft = sorted(soft)
        self.w = n_workers
        self.names = [f't{i}' for i in range(n_tasks)]

    def key(self):
        return f'n{self.n}-h{self.hard}-s{self.soft}-w{self.w}{"-shared" if self.shared else ""}'.replace(' ', '')


def make_schema(cfg, extra_fields=()):
    s = Schema(cfg.names, cfg.w + 1, extra_fields, shared_entry='shared' if cfg.shared else None)
    for i in range(cfg.n):
        s.vars[f'kind{i}'] = 'int'
    return s


def _graphs(cfg, tasks):
    from valjean.cosette.depgraph import DepGraph
    hard, soft = DepGraph(), DepGraph()
    for t in tasks:
        hard.add_node(t)
    for (i, j) in cfg.hard:
        hard.add_dependency(tasks[i], on=tasks[j])
    for (i, j) in cfg.soft:
        soft.add_dependency(tasks[i], on=tasks[j])
    return hard, soft


def extract(cfg, role, extra_fields=(), max_paths=200000):
    """-> Automaton of `role` ('master' | 'worker') for configuration cfg"""
    import valjean.cosette.backends.queue as qmod
    from valjean.cosette.env import Env
    from valjean.cosette.scheduler import Scheduler
    schema = make_schema(cfg, extra_fields)
    intern = Intern()
    payloads = [Payload(i) for i in range(cfg.n)]
    old_payloads = [Payload(i, 'old') for i in range(cfg.n)]
    for p in payloads + old_payloads:
        intern.code(p, 'payload')
    intern.code('bogus', 'status')
    aut = Automaton(role)
    aut.schema, aut.intern, aut.payloads, aut.old_payloads = schema, intern, payloads, old_payloads
    ctx_ref = [None]
    tasks = make_probe_tasks(cfg.names, ctx_ref, payloads, cfg.shared)
    WT = qmod.QueueScheduling.WorkerThread
    if cfg.prior is not None and role == 'master':
        # "whatever was scheduled earlier in the process": a real, concrete run of another graph over the SAME
        # task objects, so that any process-wide state keyed by tasks is populated before the extraction
        ph, ps = cfg.prior
        pc = Config(cfg.n, ph, ps, 1)
        hard, soft = _graphs(pc, tasks)
        Scheduler(hard_graph=hard, soft_graph=soft, backend=qmod.QueueScheduling(n_workers=1)).schedule(env=Env())

    def harness(ex):
        ctx = Ctx(ex, aut, schema, intern, role)
        ctx_ref[0] = ctx
        env = Env()
        env.dictionary = SymEnvDict(ctx)
        env.lock = SymRLock(ctx)
        queue = SymQueue(ctx, tasks)
        saved = (qmod.threading, qmod.time, WT.start, WT.join)
        registry = {}

        def t_start(th):
            idx = registry.setdefault(id(th), len(registry) + 1)
            ctx.sync(f'start({idx})', updates=lambda c: c.write(f'st{idx}', True))

        def t_join(th, timeout=None):
            idx = registry.get(id(th))
            if idx is None:
                raise RuntimeError('cannot join thread before it is started')
            ctx.sync(f'join({idx})', guard=lambda c: c.read(f'fin{idx}'))
        qmod.threading = types.SimpleNamespace(Condition=lambda *a: SymCondition(ctx), Thread=threading.Thread,
                                               RLock=threading.RLock, Lock=threading.Lock, Event=threading.Event)
        qmod.time = SymTime(ctx)
        WT.start, WT.join = t_start, t_join
        try:
            _role_root(ctx, role, cfg, tasks, env, queue)
        except Cut:
            pass
        finally:
            qmod.threading, qmod.time, WT.start, WT.join = saved

    def _role_root(ctx, role, cfg, tasks, env, queue):
        if role == 'worker':
            wt = WT(queue, env, None, SymCondition(ctx))
            ctx.sync('begin', guard=lambda c: c.read_me('st'))
            try:
                wt.run()
            except (Exception, SystemExit) as e:       # noqa  -- SystemExit: raised by a probe task (user code calling sys.exit())
                ctx.finish('DEAD', type(e).__name__)
            else:
                ctx.finish('END')
        else:
            hard, soft = _graphs(cfg, tasks)
            backend = qmod.QueueScheduling(n_workers=cfg.w)
            backend.queue = queue
            ctx.sync('begin')
            try:
                Scheduler(hard_graph=hard, soft_graph=soft, backend=backend).schedule(env=env)
            except Exception as e:       # noqa
                ctx.finish('EXC', type(e).__name__)
            else:
                ctx.finish('END')

    ex = Explorer(stop_at_first=False, max_paths=max_paths)
    ex.path_timeout_s = 30
    ex.explore(harness)
    aut.explore_stats = ex.stats.to_json()
    aut.problems = list(ex.inconclusive) + [f'{f.label}: {f.detail[-400:]}' for f in ex.failures]
    return aut
