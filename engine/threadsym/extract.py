"""threadsym step 1: per-thread automata extracted from the REAL scheduler code.

Each thread role (master = Scheduler.schedule -> QueueScheduling.execute_tasks; worker =
WorkerThread.run) is executed by the symrun explorer, alone, against an arbitrary (havocked)
shared state.  Every synchronisation primitive the real code calls (queue, condition variable,
environment lock acquired by a non-owner, Thread.start/join, Task.do entry) is a stub that

  * ends the current atomic segment: the z3 constraints collected since the previous primitive are
    the segment's GUARD over the pre-state, the writes to the symbolic store its UPDATE;
  * identifies the control point reached (code location of every valjean frame + concrete locals);
  * cuts the path if that control point is already in the automaton, otherwise havocs the shared
    state (fresh z3 variables) and lets the real code continue.

Reads of the environment fork on presence/status so that the real TaskStatus(...), assert, max()...
run natively.  The result is a finite automaton (control points, guarded edges with updates) that is
regenerated from /repo's source on every run.
"""
import sys
import os
import z3
from collections.abc import MutableMapping
from engine.symrun import core
from engine.symrun.core import Explorer, SInt, SBool, PathAbort

REPO_PREFIX = os.environ.get('VERIF_TREE', '/repo') + '/valjean'


class Cut(BaseException):
    """path reached a control point that is already part of the automaton"""


class NewField(BaseException):
    """the code wrote an environment field that is not in the schema: extraction restarts"""
    def __init__(self, name):
        super().__init__(name)
        self.name = name


class ModelError(BaseException):
    """the code did something the shared-state model cannot represent (reported as inconclusive)"""


# ----------------------------------------------------------------------------- schema
class Schema:
    """names and sorts of the shared variables for N tasks / queue capacity"""
    BASE_FIELDS = ['status', 'result', 'start_clock', 'end_clock']
    CLOCK_FIELDS = ('start_clock', 'end_clock')

    def __init__(self, task_names, n_threads, extra_fields=(), shared_entry=None):
        """shared_entry: name of an extra environment key (not a task) whose fields are the task names"""
        self.tasks = list(task_names)
        self.n_real = len(self.tasks)
        self.fields = list(self.BASE_FIELDS) + list(extra_fields)
        self.entry_fields = {}
        if shared_entry is not None:
            self.entry_fields[len(self.tasks)] = list(task_names)
            self.tasks.append(shared_entry)
        self.n_threads = n_threads
        self.vars = {}          # name -> 'int' | 'bool' | 'arr'
        for i in range(len(self.tasks)):
            self.vars[f'p{i}'] = 'bool'
            for f in self.fields_of(i):
                self.vars[f'h{i}_{f}'] = 'bool'
                self.vars[f'v{i}_{f}'] = 'int'
            if i < self.n_real:
                self.vars[f'x{i}'] = 'int'                 # monitor: number of do() entries
        self.vars['q'] = 'arr'
        self.vars['qh'] = 'int'
        self.vars['qt'] = 'int'
        self.vars['qu'] = 'int'
        self.vars['cvo'] = 'int'                        # condition variable owner (-1 free)
        self.vars['elo'] = 'int'                        # environment lock owner (-1 free)
        self.vars['clk'] = 'int'
        for t in range(n_threads):
            self.vars[f'cvw{t}'] = 'bool'               # thread t waits on the condition variable
            self.vars[f'st{t}'] = 'bool'                # thread t has been started
            self.vars[f'fin{t}'] = 'bool'               # thread t has terminated (END or DEAD/EXC)

    def fields_of(self, i):
        return self.entry_fields.get(i, self.fields)

    def mk(self, name, suffix):
        s = self.vars[name]
        n = f'{name}{suffix}'
        if s == 'bool':
            return z3.Bool(n)
        if s == 'int':
            return z3.Int(n)
        return z3.Array(n, z3.IntSort(), z3.IntSort())


class Intern:
    """finite table of concrete Python objects stored in environment fields"""
    MAX = 24

    def __init__(self):
        from valjean.cosette.task import TaskStatus
        self.objs = list(TaskStatus)           # code == int(status) for the five statuses
        self.kind = ['status'] * len(self.objs)

    def code(self, obj, kind=None):
        for i, o in enumerate(self.objs):
            if o is obj or (type(o) is type(obj) and not isinstance(o, (dict, list)) and o == obj):
                return i
        self.objs.append(obj)
        self.kind.append(kind or 'other')
        if len(self.objs) > self.MAX:
            raise ModelError('intern table overflow')
        return len(self.objs) - 1

    def obj(self, code):
        return self.objs[code]


# ----------------------------------------------------------------------------- automaton
class Edge:
    __slots__ = ('src', 'dst', 'label', 'guard', 'updates', 'inputs', 'regs')

    def __init__(self, src, dst, label, guard, updates, inputs):
        self.src, self.dst, self.label, self.guard, self.updates, self.inputs = src, dst, label, guard, updates, inputs


class Automaton:
    def __init__(self, role):
        self.role = role
        self.cps = {}            # snapshot -> id
        self.cp_info = []        # id -> description
        self.edges = []
        self.edge_keys = set()
        self.epoch_cache = {}
        self.n_regs = 0
        self.terminal = {}       # cp id -> 'END' | 'DEAD' | 'EXC'
        self.notes = []

    def cp(self, snap, info):
        i = self.cps.get(snap)
        new = i is None
        if new:
            i = len(self.cp_info)
            self.cps[snap] = i
            self.cp_info.append(info)
        return i, new


# ----------------------------------------------------------------------------- extraction context
class Ctx:
    """per-path extraction state (one role); lives inside a symrun Explorer path"""

    def __init__(self, ex, aut, schema, intern, role):
        self.ex = ex
        self.aut = aut
        self.schema = schema
        self.intern = intern
        self.role = role
        self.me = z3.Int('ME')                 # thread id of this role instance (parameter)
        self.epoch = 0
        self.cur = {}
        self.base = {}
        self.live = {}                         # task index -> concrete dict object stored this segment
        self.flushed = []                      # (dict object, snapshot) stored in earlier segments
        self.regmap = []                       # [(old term, register index)]
        self.reg_of = {}                       # (depth, name) -> register index
        self.cur_cp = None
        self.seg_mark = 0
        self.seg_label = None
        self.seg_inputs = []
        self.env_depth = 0                     # re-entrancy depth of the env lock held by this thread
        self.cv_held = False
        self.done = False
        self.dead = False
        self.prefix_len = len(ex.decisions)    # decisions replayed from an earlier path
        self._havoc()

    # ---- store
    def _havoc(self):
        self.epoch += 1
        cache = self.aut.epoch_cache
        hit = cache.get(self.epoch)
        if hit is None:
            sfx = f'@{self.epoch}'
            cur = {name: self.schema.mk(name, sfx) for name in self.schema.vars}
            regs = [z3.Int(f'r{k}{sfx}') for k in range(16)]
            # domains of the havocked state (superset of what real runs can reach; checked by the BMC)
            dom = []
            for i in range(len(self.schema.tasks)):
                if i < self.schema.n_real:
                    dom.append(cur[f'x{i}'] >= 0)
                for f in self.schema.fields_of(i):
                    if f not in Schema.CLOCK_FIELDS:
                        v = cur[f'v{i}_{f}']
                        dom += [v >= 0, v < Intern.MAX]
            dom += [cur['qh'] >= 0, cur['qt'] >= cur['qh'], cur['qu'] >= 0, cur['cvo'] >= -1,
                    cur['cvo'] < self.schema.n_threads, cur['elo'] >= -1, cur['elo'] < self.schema.n_threads,
                    self.me >= 0, self.me < self.schema.n_threads]
            hit = cache[self.epoch] = (cur, regs, z3.And(*dom))
        self.cur = dict(hit[0])
        self.regs_cur = list(hit[1])
        self.base = hit[0]
        self.base_regs = hit[1]
        self.live = {}
        self.seg_inputs = []
        self.ex.solver.add(hit[2])
        self.seg_mark = len(self.ex.solver.assertions())       # the guard starts after the domain facts

    def _guard_terms(self):
        asv = self.ex.solver.assertions()
        return [asv[i] for i in range(self.seg_mark, len(asv))]

    def read(self, name):
        return self.cur[name]

    def write(self, name, term):
        if isinstance(term, bool):
            term = z3.BoolVal(term)
        elif isinstance(term, int):
            term = z3.IntVal(term)
        self.cur[name] = term

    def fresh_input(self, base):
        v = z3.Int(f'in!{base}!{len(self.seg_inputs)}@{self.epoch}')
        self.seg_inputs.append(v)
        return v

    # ---- environment entries
    def flush_live(self):
        for i, d in self.live.items():
            self.write(f'p{i}', True)
            for f in self.schema.fields_of(i):
                if f in d:
                    self.write(f'h{i}_{f}', True)
                    self.write(f'v{i}_{f}', self.encode(d[f], f))
                else:
                    self.write(f'h{i}_{f}', False)
            for k in d:
                if k not in self.schema.fields_of(i):
                    raise NewField(k)
            self.flushed.append([i, d, dict(d)])
        self.live = {}

    def encode(self, v, field):
        if isinstance(v, SInt):
            return v.t
        if field in Schema.CLOCK_FIELDS:
            if isinstance(v, bool) or not isinstance(v, int):
                raise ModelError(f'clock field {field} set to {v!r}')
            return z3.IntVal(v)
        return z3.IntVal(self.intern.code(v, 'status' if field == 'status' else 'payload'))

    # ---- control points
    def snapshot(self):
        raw = []
        f = sys._getframe(0)
        while f is not None:
            fn = f.f_code.co_filename
            if fn.startswith(REPO_PREFIX):
                raw.append(f)
            elif f.f_code.co_name == '_role_root':
                break
            f = f.f_back
        frames = []
        symlocals = []
        n = len(raw)
        for idx, f in enumerate(raw):
            depth = n - 1 - idx                 # distance from the thread's root frame: stable register keys
            loc = []
            for k in sorted(f.f_locals):
                v = f.f_locals[k]
                s = self._snap(v, (f'{depth}.{f.f_code.co_name}', k), symlocals)
                loc.append((k, s))
            frames.append((f.f_code.co_filename[len(REPO_PREFIX):], f.f_code.co_name, f.f_lasti, tuple(loc)))
        return (tuple(frames), self.env_depth, self.cv_held), symlocals

    def _snap(self, v, where, symlocals, lvl=0):
        from valjean.cosette.task import Task, TaskStatus
        if v is None or isinstance(v, (bool, str)):
            return v
        if isinstance(v, TaskStatus):
            return ('TS', int(v))
        if isinstance(v, int) or isinstance(v, float):
            return v
        if isinstance(v, (SInt, SBool)):
            symlocals.append((where, v))
            return ('SYM',) + tuple(where)
        if isinstance(v, Task):
            return ('T', v.name)
        if isinstance(v, (list, tuple)) and lvl < 3:
            return (type(v).__name__,) + tuple(self._snap(x, where + (i,), symlocals, lvl + 1) for i, x in enumerate(v))
        if isinstance(v, (set, frozenset)) and lvl < 3:
            return ('set',) + tuple(sorted((self._snap(x, where, symlocals, lvl + 1) for x in v), key=repr))
        if isinstance(v, dict) and lvl < 3:
            return ('dict',) + tuple(sorted(((repr(k), self._snap(x, where + (repr(k),), symlocals, lvl + 1))
                                             for k, x in v.items()), key=repr))
        if isinstance(v, BaseException):
            return ('EXC', type(v).__name__)
        return ('obj', type(v).__name__)

    # ---- segments
    def sync(self, label, guard=None, updates=None):
        """called by every primitive stub: ends the running segment, registers the control point,
        havocs, and starts the next segment with the primitive's own enabling condition/effect"""
        if self.dead or self.ex.path_dead:
            # a steering exception (cut / infeasible path) is unwinding through the code's own
            # finally / with blocks: nothing that runs now belongs to the automaton
            raise Cut()
        snap, symlocals = self.snapshot()
        try:
            self._end_segment((label, snap), symlocals, f'{label} @ {self._where(snap)}')
        except BaseException:
            self.dead = True
            raise
        # start of the next segment: primitive's enabling condition and effect
        if guard is not None:
            g = guard(self)
            self.ex.solver.add(g)
            if not self.replaying() and self.ex._check() == z3.unsat:
                raise PathAbort()
        if updates is not None:
            updates(self)
        self.seg_label = label

    def _where(self, snap):
        fr = snap[0]
        return ' < '.join(f'{n}:{li}' for (_, n, li, _) in fr[:3])

    def _end_segment(self, snap_key, symlocals, info):
        ex = self.ex
        # a dict stored in an earlier segment is still the environment's entry object: writes made to it
        # through the thread's own reference during this segment are writes to the environment
        for rec in self.flushed:
            i, d, snap = rec
            if list(d) != list(snap) or any(d[k] is not snap[k] for k in snap):
                if i in self.live:
                    raise ModelError('environment entry replaced while an older alias is still written')
                for k in d:
                    if k not in self.schema.fields_of(i):
                        raise NewField(k)
                for f in self.schema.fields_of(i):
                    if f in d and (f not in snap or d[f] is not snap[f]):
                        self.write(f'h{i}_{f}', True)
                        self.write(f'v{i}_{f}', self.encode(d[f], f))
                    elif f not in d and f in snap:
                        self.write(f'h{i}_{f}', False)
                rec[2] = dict(d)
        self.flush_live()
        # registers for symbolic locals that survive the sync
        reg_updates = {}
        newmap = []
        for where, proxy in symlocals:
            key = where[:2]
            k = self.reg_of.get(key)
            if k is None:
                k = self.reg_of[key] = len(self.reg_of)
                if k >= 16:
                    raise ModelError('too many symbolic locals')
            t = proxy.t if isinstance(proxy, SInt) else z3.If(proxy.t, 1, 0)
            reg_updates[k] = t
            newmap.append((t, k))
        guard_terms = self._guard_terms()
        subst = [(t, self.base_regs[k]) for (t, k) in self.regmap]
        updates = {}
        for name, term in self.cur.items():
            if not term.eq(self.base[name]):
                updates[name] = term
        dst_snap = snap_key
        dst, new = self.aut.cp(dst_snap, info)
        if self.cur_cp is not None and not self.replaying():
            self._emit(self.cur_cp, dst, self.seg_label, guard_terms, updates, reg_updates, subst)
        self.aut.n_regs = max(self.aut.n_regs, len(self.reg_of))
        if not new and self.cur_cp is not None and ex.pos >= len(ex.decisions) and not self.replaying():
            raise Cut()
        self.cur_cp = dst
        self.regmap = newmap
        self._havoc()

    def _emit(self, src, dst, label, guard_terms, updates, reg_updates, subst):
        """canonicalise (epoch variables -> 'pre!' constants, inputs -> 'in!k') and store the edge"""
        sfx = f'@{self.epoch}'
        ren = []
        for name in self.schema.vars:
            ren.append((self.base[name], self.schema.mk(name, '')))
        for k, r in enumerate(self.base_regs):
            ren.append((r, z3.Int(f'r{k}')))
        ins = []
        for j, v in enumerate(self.seg_inputs):
            c = z3.Int(f'in!{j}')
            ren.append((v, c))
            ins.append(c)

        def canon(t):
            t = z3.substitute(t, *subst) if subst else t
            t = z3.substitute(t, *ren)
            return z3.simplify(t)
        g = canon(z3.And(*guard_terms)) if guard_terms else z3.BoolVal(True)
        ups = {name: canon(t) for name, t in updates.items()}
        for k, t in reg_updates.items():
            ct = canon(t)
            if not ct.eq(z3.Int(f'r{k}')):
                ups[f'r{k}'] = ct
        # no variable of an earlier epoch may survive
        for t in [g] + list(ups.values()):
            for vn in Explorer._vars_of(t):
                if '@' in vn:
                    raise ModelError(f'symbolic value {vn} carried across a synchronisation point outside a tracked local')
        key = (src, dst, label, g.sexpr(), tuple(sorted((k, v.sexpr()) for k, v in ups.items())))
        if key not in self.aut.edge_keys:
            self.aut.edge_keys.add(key)
            self.aut.edges.append(Edge(src, dst, label, g, ups, ins))

    def replaying(self):
        return self.ex.pos < self.prefix_len

    def finish(self, kind, detail=''):
        """thread function returned (END) or raised (DEAD / EXC)"""
        if self.dead or self.ex.path_dead:
            raise Cut()
        snap_key = ('FINAL', kind)
        self.flush_live()
        self.write('fin_me', True)
        self._end_segment_final(snap_key, kind, detail)

    def _end_segment_final(self, snap_key, kind, detail):
        ex = self.ex
        guard_terms = self._guard_terms()
        subst = [(t, self.base_regs[k]) for (t, k) in self.regmap]
        updates = {name: term for name, term in self.cur.items() if not term.eq(self.base[name])}
        dst, new = self.aut.cp(snap_key, f'{kind} {detail}'[:120])
        self.aut.terminal[dst] = kind
        if self.cur_cp is not None:
            self._emit(self.cur_cp, dst, self.seg_label, guard_terms, updates, {}, subst)
        self.done = True


# ----------------------------------------------------------------------------- symbolic environment
class SymEntry(MutableMapping):
    """env[task name]: a dictionary whose fields live in the symbolic store"""

    def __init__(self, ctx, i):
        self.ctx = ctx
        self.i = i

    def _has(self, f):
        if f not in self.ctx.schema.fields_of(self.i):
            return False
        return bool(SBool(self.ctx.read(f'h{self.i}_{f}')))

    def __contains__(self, f):
        return self._has(f)

    def __getitem__(self, f):
        if not self._has(f):
            raise KeyError(f)
        t = self.ctx.read(f'v{self.i}_{f}')
        if f in Schema.CLOCK_FIELDS:
            return SInt(t)
        code = self.ctx.ex.concretize_int(t, (0, Intern.MAX - 1))
        if code >= len(self.ctx.intern.objs):
            raise PathAbort()          # no such object (yet): unreachable in real runs
        return self.ctx.intern.obj(code)

    def __setitem__(self, f, v):
        if f not in self.ctx.schema.fields_of(self.i):
            raise NewField(f)
        self.ctx.write(f'h{self.i}_{f}', True)
        self.ctx.write(f'v{self.i}_{f}', self.ctx.encode(v, f))

    def __delitem__(self, f):
        if not self._has(f):
            raise KeyError(f)
        self.ctx.write(f'h{self.i}_{f}', False)

    def __iter__(self):
        for f in self.ctx.schema.fields_of(self.i):
            if self._has(f):
                yield f

    def __len__(self):
        return sum(1 for _ in self)

    def __repr__(self):
        return f'SymEntry({self.ctx.schema.tasks[self.i]})'


class SymEnvDict(MutableMapping):
    """stands in for Env.dictionary"""

    def __init__(self, ctx):
        self.ctx = ctx

    def _idx(self, key):
        try:
            return self.ctx.schema.tasks.index(key)
        except ValueError:
            return None

    def _present(self, i):
        if i in self.ctx.live:
            return True
        return bool(SBool(self.ctx.read(f'p{i}')))

    def __contains__(self, key):
        i = self._idx(key)
        return i is not None and self._present(i)

    def __getitem__(self, key):
        i = self._idx(key)
        if i is None:
            raise KeyError(key)
        if i in self.ctx.live:
            return self.ctx.live[i]
        if not self._present(i):
            raise KeyError(key)
        return SymEntry(self.ctx, i)

    def __setitem__(self, key, value):
        i = self._idx(key)
        if i is None:
            raise ModelError(f'environment key {key!r} is not a task of the configuration')
        if isinstance(value, SymEntry):
            if value.i == i and i not in self.ctx.live:
                return
            value = {f: value[f] for f in value}
        if not isinstance(value, dict):
            raise ModelError(f'environment entry set to a {type(value).__name__}')
        self.ctx.live[i] = value        # alias kept until the end of the segment

    def __delitem__(self, key):
        i = self._idx(key)
        if i is None or not self._present(i):
            raise KeyError(key)
        self.ctx.live.pop(i, None)
        self.ctx.write(f'p{i}', False)

    def __iter__(self):
        for i, name in enumerate(self.ctx.schema.tasks):
            if self._present(i):
                yield name

    def __len__(self):
        return sum(1 for _ in self)

    def get(self, key, default=None):
        try:
            return self[key]
        except KeyError:
            return default

    def copy(self):
        raise ModelError('copy of the environment dictionary inside the scheduler')


# ----------------------------------------------------------------------------- primitive stubs
class SymRLock:
    def __init__(self, ctx):
        self.ctx = ctx

    def acquire(self, blocking=True, timeout=-1):
        c = self.ctx
        if c.env_depth > 0:
            c.env_depth += 1
            return True
        c.sync('env.acquire', guard=lambda c: c.read('elo') == -1, updates=lambda c: c.write('elo', c.me))
        c.env_depth = 1
        return True

    def release(self):
        c = self.ctx
        if c.env_depth <= 0:
            raise RuntimeError('cannot release un-acquired lock')
        c.env_depth -= 1
        if c.env_depth == 0:
            c.write('elo', -1)

    __enter__ = acquire

    def __exit__(self, *a):
        self.release()


class SymCondition:
    def __init__(self, ctx):
        self.ctx = ctx

    def acquire(self, *a):
        c = self.ctx
        c.sync('cv.acquire', guard=lambda c: c.read('cvo') == -1, updates=lambda c: c.write('cvo', c.me))
        c.cv_held = True
        return True

    def release(self):
        c = self.ctx
        if not c.cv_held:
            raise RuntimeError('cannot release un-acquired lock')
        c.cv_held = False
        c.write('cvo', -1)

    __enter__ = acquire

    def __exit__(self, *a):
        self.release()

    def wait(self, timeout=None):
        c = self.ctx
        if timeout is not None:
            raise ModelError('Condition.wait with a timeout')
        if not c.cv_held:
            raise RuntimeError('cannot wait on un-acquired lock')
        c.cv_held = False

        def rel(c):
            c.write('cvo', -1)
            c.write('cvw_me', True)
        c.sync('cv.wait.release', updates=rel)
        c.sync('cv.wait.reacquire',
               guard=lambda c: z3.And(z3.Not(c.read_me('cvw')), c.read('cvo') == -1),
               updates=lambda c: c.write('cvo', c.me))
        c.cv_held = True
        return True

    def notify_all(self):
        c = self.ctx
        if not c.cv_held:
            raise RuntimeError('cannot notify on un-acquired lock')
        for t in range(c.schema.n_threads):
            c.write(f'cvw{t}', False)

    def notify(self, n=1):
        # only the master ever waits: notify == notify_all for this program (checked by the BMC:
        # at most one waiter)
        self.notify_all()


class SymQueue:
    def __init__(self, ctx, items):
        self.ctx = ctx
        self.items = items               # concrete objects that may travel through the queue

    def _code(self, x):
        if x is None:
            return -1
        for i, o in enumerate(self.items):
            if o is x:
                return i
        raise ModelError(f'unexpected object {x!r} put in the queue')

    def put(self, x, block=True, timeout=None):
        code = self._code(x)

        def upd(c):
            c.write('q', z3.Store(c.read('q'), c.read('qt'), code))
            c.write('qt', c.read('qt') + 1)
            c.write('qu', c.read('qu') + 1)
        self.ctx.sync(f'q.put({code})', updates=upd)

    def get(self, block=True, timeout=None):
        c = self.ctx
        c.sync('q.get')
        # which item comes out is decided by the queue content: part of the NEXT segment's guard
        k = c.ex.choice(len(self.items) + 1, 'q.get')
        code = k - 1
        c.ex.solver.add(z3.And(c.read('qh') < c.read('qt'), z3.Select(c.read('q'), c.read('qh')) == code))
        c.write('qh', c.read('qh') + 1)
        return None if code < 0 else self.items[code]

    def task_done(self):
        def upd(c):
            c.write('qu', c.read('qu') - 1)
        self.ctx.sync('q.task_done', guard=lambda c: c.read('qu') > 0, updates=upd)

    def join(self):
        self.ctx.sync('q.join', guard=lambda c: c.read('qu') == 0)

    def qsize(self):
        raise ModelError('Queue.qsize')

    def empty(self):
        raise ModelError('Queue.empty')


class SymTime:
    """time module stub: arbitrary non-decreasing instants"""
    def __init__(self, ctx):
        self.ctx = ctx

    def time(self):
        c = self.ctx
        t = c.fresh_input('t')
        c.ex.solver.add(t >= c.read('clk'))
        c.write('clk', t)
        return SInt(t)

    def sleep(self, s):
        pass

    perf_counter = time


def _read_me(self, base):
    """value of the per-thread boolean `base`<ME> (ME symbolic): ite chain"""
    t = z3.BoolVal(False)
    for k in range(self.schema.n_threads):
        t = z3.If(self.me == k, self.read(f'{base}{k}'), t)
    return t


def _write_me(self, name, val):
    base = name[:-3]
    v = z3.BoolVal(val) if isinstance(val, bool) else val
    for k in range(self.schema.n_threads):
        Ctx._orig_write(self, f'{base}{k}', z3.If(self.me == k, v, self.read(f'{base}{k}')))


Ctx.read_me = _read_me
Ctx._orig_write = Ctx.write


def _write(self, name, term):
    if name.endswith('_me'):
        return _write_me(self, name, term)
    return Ctx._orig_write(self, name, term)


Ctx.write = _write


# ----------------------------------------------------------------------------- minimisation
def minimise(aut):
    """merge control points with identical behaviour (strong bisimulation on guard/update/target):
    the extractor distinguishes control points by ALL concrete locals, including dead ones (values
    left over from the previous loop iteration), which multiplies states without changing behaviour"""
    n = len(aut.cp_info)
    out = {i: [] for i in range(n)}
    for e in aut.edges:
        out[e.src].append(e)
    cls = [('T', aut.terminal[i]) if i in aut.terminal else ('N',) for i in range(n)]
    ids = {}
    part = [ids.setdefault(c, len(ids)) for c in cls]
    esig = {id(e): (e.label.split('@')[0], e.guard.sexpr(), tuple(sorted((k, v.sexpr()) for k, v in e.updates.items())))
            for e in aut.edges}
    while True:
        sigs = []
        for i in range(n):
            sigs.append((part[i], tuple(sorted(set(esig[id(e)] + (part[e.dst],) for e in out[i])))))
        ids = {}
        newpart = [ids.setdefault(sg, len(ids)) for sg in sigs]
        if len(ids) == len(set(part)):
            part = newpart
            break
        part = newpart
    # rebuild
    new = Automaton(aut.role)
    for a in ('schema', 'intern', 'payloads', 'old_payloads', 'explore_stats', 'problems'):
        if hasattr(aut, a):
            setattr(new, a, getattr(aut, a))
    rep = {}
    for i in range(n):
        rep.setdefault(part[i], i)
    order = sorted(rep, key=lambda c: rep[c])
    remap = {c: k for k, c in enumerate(order)}
    # keep the initial control point (0) as 0
    new.cp_info = [aut.cp_info[rep[c]] for c in order]
    new.terminal = {remap[part[i]]: kind for i, kind in aut.terminal.items()}
    new.n_regs = aut.n_regs
    seen = set()
    for e in aut.edges:
        key = (remap[part[e.src]], remap[part[e.dst]]) + esig[id(e)]
        if key in seen:
            continue
        seen.add(key)
        new.edges.append(Edge(remap[part[e.src]], remap[part[e.dst]], e.label, e.guard, e.updates, e.inputs))
    new.unminimised = (n, len(aut.edges))
    return new
