"""threadsym step 3: replay of a BMC trace on the real scheduler with real threads.

The same synchronisation points as in the extraction are hand-shaking primitives here: every
operation parks its thread until the controller (driven by the solver's schedule) lets exactly that
thread run to its next synchronisation point.  Outcomes of the probe tasks come from the model.
"""
import threading
import types
import time as _time


class Diverged(Exception):
    """the concrete run did not follow the solver's trace (reported as inconclusive)"""


class Controller:
    def __init__(self, timeout=10.0):
        self.cv = threading.Condition()
        self.parked = {}          # tid -> label
        self.go = {}              # tid -> Event
        self.finished = {}        # tid -> 'END' | 'DEAD:...' | 'EXC:...'
        self.tids = {}            # threading ident -> tid
        self.timeout = timeout
        self.log = []
        self.free_run = False     # after the trace: let threads run freely? (never: we observe blocking)

    def me(self):
        return self.tids[threading.get_ident()]

    def register(self, tid):
        with self.cv:
            self.tids[threading.get_ident()] = tid
            self.go[tid] = threading.Event()

    def yield_point(self, label):
        tid = self.me()
        ev = self.go[tid]
        with self.cv:
            self.parked[tid] = label
            self.cv.notify_all()
        ev.wait()
        ev.clear()
        if getattr(self, 'abort', False):
            raise SystemExit

    def finish(self, kind):
        tid = self.me()
        with self.cv:
            self.finished[tid] = kind
            self.cv.notify_all()

    def wait_parked(self, tid):
        """wait until thread tid is parked or finished; returns label or None if finished"""
        deadline = _time.time() + self.timeout
        with self.cv:
            while tid not in self.parked and tid not in self.finished:
                left = deadline - _time.time()
                if left <= 0:
                    raise Diverged(f'thread {tid} neither parked nor finished')
                self.cv.wait(left)
            return self.parked.get(tid)

    def release(self, tid):
        with self.cv:
            self.parked.pop(tid, None)
        self.go[tid].set()

    def step(self, tid, label):
        got = self.wait_parked(tid)
        if got is None:
            raise Diverged(f'thread {tid} already finished ({self.finished.get(tid)}), trace wants {label}')
        if got.split('(')[0] != label.split('(')[0] or (('(' in label) and got != label):
            raise Diverged(f'thread {tid} is at {got!r}, trace wants {label!r}')
        self.log.append((tid, got))
        self.release(tid)
        # run the segment to its end: the thread parks again or finishes
        deadline = _time.time() + self.timeout
        with self.cv:
            while tid not in self.parked and tid not in self.finished:
                left = deadline - _time.time()
                if left <= 0:
                    raise Diverged(f'thread {tid} did not reach its next synchronisation point after {got!r}')
                self.cv.wait(left)

    def kill_all(self):
        self.abort = True
        for tid, ev in self.go.items():
            ev.set()


class CtlRLock:
    def __init__(self, ctl):
        self.ctl, self.owner, self.depth = ctl, None, 0

    def acquire(self, blocking=True, timeout=-1):
        me = self.ctl.me()
        if self.owner == me:
            self.depth += 1
            return True
        self.ctl.yield_point('env.acquire')
        if self.owner is not None:
            raise Diverged('env lock released to a thread while held')
        self.owner, self.depth = me, 1
        return True

    def release(self):
        self.depth -= 1
        if self.depth == 0:
            self.owner = None

    __enter__ = acquire

    def __exit__(self, *a):
        self.release()


class CtlCondition:
    def __init__(self, ctl):
        self.ctl, self.owner, self.waiters = ctl, None, set()

    def acquire(self, *a):
        self.ctl.yield_point('cv.acquire')
        if self.owner is not None:
            raise Diverged('condition lock granted while held')
        self.owner = self.ctl.me()
        return True

    def release(self):
        self.owner = None

    __enter__ = acquire

    def __exit__(self, *a):
        self.release()

    def wait(self, timeout=None):
        me = self.ctl.me()
        self.ctl.yield_point('cv.wait.release')
        self.owner = None
        self.waiters.add(me)
        self.ctl.yield_point('cv.wait.reacquire')
        if me in self.waiters or self.owner is not None:
            raise Diverged('waiter released without notification / lock')
        self.owner = me
        return True

    def notify_all(self):
        self.waiters.clear()

    def notify(self, n=1):
        self.waiters.clear()


class CtlQueue:
    def __init__(self, ctl, tasks):
        self.ctl, self.items, self.unfinished, self.tasks = ctl, [], 0, tasks

    def _code(self, x):
        return -1 if x is None else self.tasks.index(x)

    def put(self, x, block=True, timeout=None):
        self.ctl.yield_point(f'q.put({self._code(x)})')
        self.items.append(x)
        self.unfinished += 1

    def get(self, block=True, timeout=None):
        self.ctl.yield_point('q.get')
        if not self.items:
            raise Diverged('get() released on an empty queue')
        return self.items.pop(0)

    def task_done(self):
        self.ctl.yield_point('q.task_done')
        self.unfinished -= 1

    def join(self):
        self.ctl.yield_point('q.join')
        if self.unfinished != 0:
            raise Diverged('join() released with unfinished tasks')


class CtlClock:
    """instants chosen by the solver (in the order the real code asks for them), then a counter"""
    def __init__(self, instants=()):
        self.pending = list(instants)
        self.t = max(list(instants) + [0])

    def time(self):
        if self.pending:
            self.t = self.pending.pop(0)
        else:
            self.t += 1
        return self.t

    def sleep(self, s):
        pass


def run_trace(cfg, trace, kinds, init_env=None, observe=None, timeout=10.0):
    """Replay `trace` (list of {'thread','label'}) on the real code.
    Returns a dict: env (final dictionary), exec_counts, reads (what each probe task saw at start),
    outcome of schedule(), alive worker threads, blocked threads after the trace."""
    import valjean.cosette.backends.queue as qmod
    from valjean.cosette.env import Env
    from valjean.cosette.scheduler import Scheduler
    from valjean.cosette.task import Task, TaskStatus
    from .roles import KINDS, Payload, _graphs
    ctl = Controller(timeout)
    counts = [0] * cfg.n
    reads = {}
    payloads = [Payload(i) for i in range(cfg.n)]

    class ProbeTask(Task):
        def __init__(self, name, i):
            super().__init__(name)
            self.i = i

        def do(self, env, config):
            if warm[0]:                      # concrete warm-up run on the prior graph (Config.prior)
                return {self.name: {'result': payloads[self.i]}}, TaskStatus.DONE
            ctl.yield_point(f'do({self.i})')
            counts[self.i] += 1
            # what this task can read when it starts
            snap = {}
            for name in list(cfg.names) + (['shared'] if getattr(cfg, 'shared', False) else []):
                try:
                    d = env.dictionary.get(name)
                    snap[name] = None if d is None else dict(d)
                except Exception as e:   # noqa
                    snap[name] = repr(e)
            reads.setdefault(self.i, []).append(snap)
            kind = KINDS[kinds[self.i]]
            upd_ok = {self.name: {'result': payloads[self.i]}}
            if getattr(cfg, 'shared', False):
                upd_ok['shared'] = {self.name: payloads[self.i]}
            if kind == 'done':
                return upd_ok, TaskStatus.DONE
            if kind == 'failed':
                return upd_ok, TaskStatus.FAILED
            if kind == 'raises':
                raise RuntimeError('probe task failure')
            if kind == 'none':
                return None
            if kind == 'triple':
                return upd_ok, TaskStatus.DONE, 'extra'
            if kind == 'bogus-status':
                return upd_ok, 'bogus'
            if kind == 'update-empty-non-mapping':
                return [], TaskStatus.DONE
            if kind == 'non-final-status':
                return upd_ok, TaskStatus.WAITING
            if kind == 'own-entry-not-a-mapping':
                return {self.name: 5}, TaskStatus.DONE
            if kind == 'system-exit':
                raise SystemExit(3)
            return 42, TaskStatus.DONE

    warm = [False]
    tasks = [ProbeTask(n, i) for i, n in enumerate(cfg.names)]
    if getattr(cfg, 'prior', None) is not None:
        from .roles import Config as _Cfg
        warm[0] = True
        ph, ps = cfg.prior
        h0, s0 = _graphs(_Cfg(cfg.n, ph, ps, 1), tasks)
        Scheduler(hard_graph=h0, soft_graph=s0, backend=qmod.QueueScheduling(n_workers=1)).schedule(env=Env())
        warm[0] = False
    env = Env(init_env or {})
    env.lock = CtlRLock(ctl)
    queue = CtlQueue(ctl, tasks)
    WT = qmod.QueueScheduling.WorkerThread
    saved = (qmod.threading, qmod.time, WT.start, WT.join, WT.run)
    orig_start, orig_join, orig_run = WT.start, WT.join, WT.run
    registry = {}
    result = {}

    def t_start(th):
        idx = registry.setdefault(id(th), len(registry) + 1)
        th._vidx = idx
        ctl.yield_point(f'start({idx})')
        th.daemon = True            # replays must never block interpreter exit
        orig_start(th)

    def t_join(th, timeout=None):
        ctl.yield_point(f'join({th._vidx})')
        orig_join(th, 5.0)

    def t_run(th):
        ctl.register(th._vidx)
        try:
            ctl.yield_point('begin')
            orig_run(th)
        except SystemExit:
            ctl.finish('KILLED')
        except Exception as e:    # noqa
            ctl.finish(f'DEAD:{type(e).__name__}')
        else:
            ctl.finish('END')

    def master():
        ctl.register(0)
        try:
            ctl.yield_point('begin')
            hard, soft = _graphs(cfg, tasks)
            backend = qmod.QueueScheduling(n_workers=cfg.w)
            backend.queue = queue
            Scheduler(hard_graph=hard, soft_graph=soft, backend=backend).schedule(env=env)
        except SystemExit:
            ctl.finish('KILLED')
        except Exception as e:    # noqa
            result['outcome'] = f'raised {type(e).__name__}: {e}'
            ctl.finish(f'EXC:{type(e).__name__}')
        else:
            result['outcome'] = 'returned'
            ctl.finish('END')

    cond_ref = []

    def mk_cond(*a):
        c = CtlCondition(ctl)
        cond_ref.append(c)
        return c
    qmod.threading = types.SimpleNamespace(Condition=mk_cond, Thread=threading.Thread,
                                           RLock=threading.RLock, Lock=threading.Lock, Event=threading.Event)
    qmod.time = CtlClock([v for st in trace for v in st.get('ins', [])])
    WT.start, WT.join, WT.run = t_start, t_join, t_run
    mt = threading.Thread(target=master, daemon=True)
    diverged = None
    try:
        mt.start()
        for st in trace:
            if st.get('stutter'):
                continue
            ctl.step(st['thread'], st['label'])
        # after the trace: who is where?
        _time.sleep(0.05)
        with ctl.cv:
            result['parked'] = dict(ctl.parked)
            result['finished'] = dict(ctl.finished)
        # which of the parked threads could move?  (deadlock diagnosis)
        cond = cond_ref[0] if cond_ref else None
        blocked = {}
        for tid, lab in result['parked'].items():
            why = None
            if lab == 'q.get' and not queue.items:
                why = 'Queue.get() on an empty queue'
            elif lab == 'q.join' and queue.unfinished != 0:
                why = f'Queue.join() with {queue.unfinished} unfinished task(s)'
            elif lab == 'cv.wait.reacquire' and cond is not None and (tid in cond.waiters or cond.owner is not None):
                why = 'Condition.wait() never notified'
            elif lab == 'cv.acquire' and cond is not None and cond.owner is not None:
                why = 'condition lock held'
            elif lab == 'env.acquire' and env.lock.owner is not None:
                why = 'environment lock held'
            elif lab.startswith('join('):
                w = int(lab[5:-1])
                if w not in result['finished']:
                    why = f'Thread.join() on worker {w} which never finishes'
            blocked[tid] = why
        result['blocked'] = blocked
    except Diverged as e:
        diverged = str(e)
    finally:
        ctl.kill_all()
        _time.sleep(0.05)
        qmod.threading, qmod.time, WT.start, WT.join, WT.run = saved
    result['diverged'] = diverged
    result['exec_counts'] = counts
    result['reads'] = reads
    result['env'] = {k: (dict(v) if isinstance(v, dict) else v) for k, v in env.dictionary.items()}
    result['queue_items'] = len(queue.items)
    result['queue_unfinished'] = queue.unfinished
    result['log'] = ctl.log
    return result
