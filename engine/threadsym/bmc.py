"""threadsym step 2: bounded model checking of the product of the extracted thread automata.

The interleaving (sched[k] = which thread moves at step k), the task outcome kinds, the clock
readings and (optionally) the initial environment are z3 variables; one query decides a property for
ALL schedules of the bounded run.  A step is legal only if the chosen thread has an enabled edge
(blocking = guard false); if no thread is enabled the system stutters (deadlock or termination).

Encoding: quantifier-free bit-vectors (QF_BV).  The linear Int/Array terms produced by the extractor
are translated: Int -> signed BitVec(BW), the queue array -> QCAP explicit cells.  Range facts (no
wrap-around) are asserted as part of the transition relation and reported if violated.
"""
import time
import z3
from engine.symrun.core import Explorer

BW = 8          # bit-width of every integer of the product (pcs, codes, counters, clock instants)
QCAP = 8        # queue capacity (cells); N tasks + W sentinels must fit (checked)


class ToBV:
    """Int -> signed BitVec(BW); Array q -> QCAP explicit cells."""

    def __init__(self):
        self.cache = {}

    def conv(self, t):
        k = t.get_id()
        r = self.cache.get(k)
        if r is not None and r[0].eq(t):
            return r[1]
        v = self._conv(t)
        self.cache[k] = (t, v)
        return v

    def _conv(self, t):
        if z3.is_int_value(t):
            return z3.BitVecVal(t.as_long(), BW)
        if z3.is_true(t) or z3.is_false(t):
            return t
        if z3.is_const(t) and t.decl().kind() == z3.Z3_OP_UNINTERPRETED:
            if z3.is_bool(t):
                return t
            if z3.is_int(t):
                return z3.BitVec(t.decl().name(), BW)
            if z3.is_array(t):
                return ('arr', [z3.BitVec(f'{t.decl().name()}!c{i}', BW) for i in range(QCAP)])
            raise RuntimeError(f'sort of {t}')
        kind = t.decl().kind()
        ch = t.children()
        if kind == z3.Z3_OP_STORE:
            a, i, v = self.conv(ch[0]), self.conv(ch[1]), self.conv(ch[2])
            return ('arr', [z3.If(i == j, v, c) for j, c in enumerate(a[1])])
        if kind == z3.Z3_OP_SELECT:
            a, i = self.conv(ch[0]), self.conv(ch[1])
            r = a[1][-1]
            for j in range(QCAP - 2, -1, -1):
                r = z3.If(i == j, a[1][j], r)
            return r
        c = [self.conv(x) for x in ch]
        if kind == z3.Z3_OP_ADD:
            r = c[0]
            for x in c[1:]:
                r = r + x
            return r
        if kind == z3.Z3_OP_SUB:
            r = c[0]
            for x in c[1:]:
                r = r - x
            return r
        if kind == z3.Z3_OP_UMINUS:
            return -c[0]
        if kind == z3.Z3_OP_MUL:
            r = c[0]
            for x in c[1:]:
                r = r * x
            return r
        if kind == z3.Z3_OP_LE:
            return c[0] <= c[1]
        if kind == z3.Z3_OP_LT:
            return c[0] < c[1]
        if kind == z3.Z3_OP_GE:
            return c[0] >= c[1]
        if kind == z3.Z3_OP_GT:
            return c[0] > c[1]
        if kind == z3.Z3_OP_EQ:
            if isinstance(c[0], tuple):
                return z3.And(*[a == b for a, b in zip(c[0][1], c[1][1])])
            return c[0] == c[1]
        if kind == z3.Z3_OP_DISTINCT:
            return z3.Distinct(*c)
        if kind == z3.Z3_OP_ITE:
            if isinstance(c[1], tuple):
                return ('arr', [z3.If(c[0], a, b) for a, b in zip(c[1][1], c[2][1])])
            return z3.If(c[0], c[1], c[2])
        if kind == z3.Z3_OP_AND:
            return z3.And(*c)
        if kind == z3.Z3_OP_OR:
            return z3.Or(*c)
        if kind == z3.Z3_OP_NOT:
            return z3.Not(c[0])
        if kind == z3.Z3_OP_IMPLIES:
            return z3.Implies(c[0], c[1])
        if kind == z3.Z3_OP_XOR:
            return z3.Xor(c[0], c[1])
        raise RuntimeError(f'cannot translate {t.decl().name()} to bit-vectors: {t}')


def merge_edges(aut):
    """edges with the same source, target and update are merged by OR-ing their guards"""
    groups = {}
    order = []
    for e in aut.edges:
        key = (e.src, e.dst, tuple(sorted((k, v.sexpr()) for k, v in e.updates.items())), len(e.inputs))
        if key not in groups:
            groups[key] = [e, [e.guard]]
            order.append(key)
        else:
            groups[key][1].append(e.guard)
    out = []
    for key in order:
        e, gs = groups[key]
        g = z3.simplify(z3.Or(*gs)) if len(gs) > 1 else gs[0]
        out.append((e, g))
    return out


class Product:
    """Canonical one-step transition relation over 'pre' / 'post' bit-vector variables."""

    def __init__(self, cfg, master, worker):
        self.cfg = cfg
        self.schema = master.schema
        self.master, self.worker = master, worker
        self.T = cfg.w + 1
        self.n_regs = max(master.n_regs, worker.n_regs, 1)
        self.bv = ToBV()
        assert cfg.n + cfg.w <= QCAP, 'queue capacity'
        assert max(len(master.cp_info), len(worker.cp_info)) < 2 ** (BW - 1), 'pc width'
        # canonical state variables: name -> ('bool'|'int') ; the queue array becomes cells
        self.sorts = {}
        for n, s in self.schema.vars.items():
            if s == 'arr':
                for i in range(QCAP):
                    self.sorts[f'{n}!c{i}'] = 'int'
            else:
                self.sorts[n] = s
        for t in range(self.T):
            self.sorts[f'pc{t}'] = 'int'
            for k in range(self.n_regs):
                self.sorts[f'r{t}_{k}'] = 'int'
        self.pre = {n: self._mk(n, '') for n in self.sorts}
        self.sched = z3.BitVec('sched', BW)
        self.max_inputs = max([len(e.inputs) for a in (master, worker) for e in a.edges] + [0])
        self.inputs = [z3.BitVec(f'in!{j}', BW) for j in range(self.max_inputs)]
        self._build()

    def _mk(self, n, sfx):
        return z3.Bool(n + sfx) if self.sorts[n] == 'bool' else z3.BitVec(n + sfx, BW)

    def thread_aut(self, t):
        return self.master if t == 0 else self.worker

    def _inst(self, term, t):
        """canonical automaton (Int) term -> product bit-vector term for thread t"""
        sub = [(z3.Int('ME'), z3.IntVal(t))]
        for k in range(self.n_regs):
            sub.append((z3.Int(f'r{k}'), z3.Int(f'r{t}_{k}')))
        return self.bv.conv(z3.simplify(z3.substitute(term, *sub)))

    def _build(self):
        self.fires = []          # (thread, edge, fire condition over pre/inputs/sched)
        self.enabled_t = []
        writes = {n: [] for n in self.sorts}
        for t in range(self.T):
            aut = self.thread_aut(t)
            ens = []
            for e, g in merge_edges(aut):
                guard = self._inst(g, t)
                at = self.pre[f'pc{t}'] == e.src
                fire = z3.And(self.sched == t, at, guard)
                self.fires.append((t, e, fire))
                ens.append(z3.And(at, self._strip_inputs(g, t)))
                for name, term in e.updates.items():
                    val = self._inst(term, t)
                    if name.startswith('r') and name[1:].isdigit():
                        writes[f'r{t}_{name[1:]}'].append((fire, val))
                    elif isinstance(val, tuple):
                        for i, c in enumerate(val[1]):
                            writes[f'{name}!c{i}'].append((fire, c))
                    else:
                        writes[name].append((fire, val))
                writes[f'pc{t}'].append((fire, z3.BitVecVal(e.dst, BW)))
            self.enabled_t.append(z3.Or(*ens) if ens else z3.BoolVal(False))
        self.writes = writes
        self.any_enabled = z3.Or(*self.enabled_t)
        self.stepped = z3.Or(*[f for (_, _, f) in self.fires])

    def _strip_inputs(self, guard, t):
        """enabledness must not depend on the free step inputs (clock readings): their conjuncts are
        clock orderings (in >= clk, in >= in'), always satisfiable, and are dropped"""
        def strip(t):
            vs = Explorer._vars_of(t)
            if not any(v.startswith('in!') for v in vs):
                return t
            if z3.is_and(t):
                return z3.And(*[strip(c) for c in t.children()])
            if z3.is_or(t):
                return z3.Or(*[strip(c) for c in t.children()])
            if z3.is_ge(t) or z3.is_le(t):
                # in >= clk / in >= in' (positive occurrence): a suitable instant always exists
                return z3.BoolVal(True)
            raise RuntimeError(f'guard atom over a step input is not a clock ordering: {t}')
        return self._inst(z3.simplify(strip(guard)), t)

    # ------------------------------------------------------------------ partial-order reduction
    def footprints(self):
        """per fired edge: shared variables read (guard + right-hand sides) and written.  A variable whose
        update is a constant that the guard already forces (lock taken and released inside the segment)
        counts as read only."""
        shared = [n for n in self.sorts if not (n.startswith('pc') or (n.startswith('r') and '_' in n and n[1].isdigit()))]
        idx = {n: i for i, n in enumerate(shared)}
        fps = []
        for (t, e, fire) in self.fires:
            reads, writes = set(), set()
            gvars = {v for v in Explorer._vars_of(e.guard)}
            forced = {}
            conj = e.guard.children() if z3.is_and(e.guard) else [e.guard]
            for c in conj:
                if z3.is_eq(c) and z3.is_const(c.arg(0)) and z3.is_int_value(c.arg(1)):
                    forced[c.arg(0).decl().name()] = c.arg(1).as_long()
            for v in gvars:
                reads.add(v)
            for name, term in e.updates.items():
                for v in Explorer._vars_of(term):
                    reads.add(v)
                if z3.is_int_value(term) and forced.get(name) == term.as_long():
                    reads.add(name)
                    continue
                writes.add(name)
            def norm(vs):
                out = set()
                for v in vs:
                    if v == 'q':
                        out.update(i for n, i in idx.items() if n.startswith('q!c'))
                    elif v in idx:
                        out.add(idx[v])
                return out
            fps.append((norm(reads), norm(writes)))
        self.shared = shared
        return fps

    def por_terms(self):
        """(R, W): per shared variable, Bool term 'the edge fired at this step reads / writes it'"""
        fps = self.footprints()
        n = len(self.shared)
        R = [[] for _ in range(n)]
        Wr = [[] for _ in range(n)]
        for (t, e, fire), (rd, wr) in zip(self.fires, fps):
            for i in rd:
                R[i].append(fire)
            for i in wr:
                Wr[i].append(fire)
        mk = lambda fs: z3.Or(*fs) if fs else z3.BoolVal(False)     # noqa
        return [mk(x) for x in R], [mk(x) for x in Wr]

    def add_monitor(self, name, sort, on_label, fn):
        """extra state variable updated by fn(thread, edge, pre) on edges whose label starts with on_label"""
        self.sorts[name] = sort
        self.pre[name] = self._mk(name, '')
        self.writes[name] = []
        for (t, e, fire) in self.fires:
            if e.label.startswith(on_label):
                self.writes[name].append((fire, fn(t, e, self.pre)))

    def transition(self):
        """(constraints over pre, post, sched, inputs), post variables"""
        self.post = {n: self._mk(n, "'") for n in self.sorts}
        cs = []
        for n in self.sorts:
            val = self.pre[n]
            for fire, term in reversed(self.writes[n]):
                val = z3.If(fire, term, val)
            cs.append(self.post[n] == val)
        cs.append(z3.And(self.sched >= 0, self.sched < self.T))
        cs.append(z3.Or(self.stepped, z3.Not(self.any_enabled)))
        # ranges (no wrap-around): clock instants and counters stay small and non-negative
        for j in range(self.max_inputs):
            cs.append(z3.And(self.inputs[j] >= 0, self.inputs[j] < 2 ** (BW - 1) - 1))
        return z3.And(*cs)

    def range_ok(self):
        """state predicate: every counter is inside the representable range (checked, not assumed)"""
        p = self.pre
        cs = [p['qt'] < QCAP, p['qt'] >= 0, p['qh'] >= 0, p['qu'] >= 0, p['qu'] < 100, p['clk'] >= 0]
        for i in range(self.cfg.n):
            cs += [p[f'x{i}'] >= 0, p[f'x{i}'] < 100]
        return z3.And(*cs)

    def terminal(self, t):
        aut = self.thread_aut(t)
        return z3.Or(*[self.pre[f'pc{t}'] == c for c in aut.terminal]) if aut.terminal else z3.BoolVal(False)

    def terminal_kind(self, t, kind):
        aut = self.thread_aut(t)
        cps = [c for c, k in aut.terminal.items() if k == kind]
        return z3.Or(*[self.pre[f'pc{t}'] == c for c in cps]) if cps else z3.BoolVal(False)


class Unrolling:
    def __init__(self, prod, K, seed=0, timeout_ms=600000, por=True):
        self.p = prod
        self.K = K
        self.solver = z3.SolverFor('QF_BV')
        self.solver.set('timeout', timeout_ms)
        if seed:
            self.solver.set('random_seed', seed)
        p = prod
        T = p.transition()
        self.state = [{n: self._mk(n, k) for n in p.sorts} for k in range(K + 1)]
        self.sched = [z3.BitVec(f'sched#{k}', BW) for k in range(K)]
        self.ins = [[z3.BitVec(f'in!{j}#{k}', BW) for j in range(p.max_inputs)] for k in range(K)]
        t0 = time.time()
        for k in range(K):
            self.solver.add(z3.substitute(T, *self._map(k, with_post=True)))
        if por:
            # keep only the lexicographically least linearisation of every Mazurkiewicz trace: two adjacent
            # steps of different threads whose footprints do not conflict must appear in thread-id order
            R, Wr = p.por_terms()
            n = len(R)
            rk = [[z3.Bool(f'R{i}#{k}') for i in range(n)] for k in range(K)]
            wk = [[z3.Bool(f'W{i}#{k}') for i in range(n)] for k in range(K)]
            st = [z3.Bool(f'stepped#{k}') for k in range(K)]
            for k in range(K):
                m = self._map(k, with_post=True)
                for i in range(n):
                    self.solver.add(rk[k][i] == z3.substitute(R[i], *m))
                    self.solver.add(wk[k][i] == z3.substitute(Wr[i], *m))
                self.solver.add(st[k] == z3.substitute(p.stepped, *m))
                self.solver.add(z3.Implies(z3.Not(st[k]), self.sched[k] == 0))
            for k in range(K - 1):
                conflict = z3.Or(*[z3.Or(z3.And(wk[k][i], z3.Or(rk[k + 1][i], wk[k + 1][i])),
                                        z3.And(rk[k][i], wk[k + 1][i])) for i in range(n)])
                self.solver.add(z3.Implies(z3.And(st[k], st[k + 1], self.sched[k] > self.sched[k + 1]), conflict))
        self.build_s = time.time() - t0
        self.solve_s = 0.0
        self.queries = []

    def _mk(self, n, k):
        return z3.Bool(f'{n}#{k}') if self.p.sorts[n] == 'bool' else z3.BitVec(f'{n}#{k}', BW)

    def _map(self, k, with_post=False):
        p = self.p
        m = [(p.pre[n], self.state[k][n]) for n in p.sorts]
        if with_post:
            m += [(p.post[n], self.state[k + 1][n]) for n in p.sorts]
            m.append((p.sched, self.sched[k]))
            m += [(p.inputs[j], self.ins[k][j]) for j in range(p.max_inputs)]
        return m

    def at(self, k, term):
        """state predicate (over canonical pre variables) at step k"""
        return z3.substitute(term, *self._map(k))

    def ever(self, term):
        return z3.Or(*[self.at(k, term) for k in range(self.K + 1)])

    def init(self, term):
        self.solver.add(self.at(0, term))

    def check(self, name, *assumptions):
        t0 = time.time()
        r = self.solver.check(*assumptions)
        dt = time.time() - t0
        self.solve_s += dt
        self.queries.append({'query': name, 'result': str(r), 'seconds': round(dt, 2), 'K': self.K})
        return r

    def model(self):
        return self.solver.model()

    def val(self, model, k, name):
        v = model.eval(self.state[k][name], model_completion=True)
        if z3.is_bool(v):
            return z3.is_true(v)
        return v.as_signed_long()

    def trace(self, model):
        """schedule and labels of the fired edges in a model"""
        p = self.p
        out = []
        for k in range(self.K):
            t = model.eval(self.sched[k], model_completion=True).as_signed_long()
            pc = self.val(model, k, f'pc{t}') if 0 <= t < p.T else None
            fired = None
            for (tt, e, fire) in p.fires:
                if tt == t and e.src == pc:
                    f = z3.substitute(fire, *self._map(k, with_post=True))
                    if z3.is_true(model.eval(f, model_completion=True)):
                        fired = e
                        break
            if fired is None:
                out.append({'step': k, 'thread': t, 'stutter': True})
            else:
                ins = [model.eval(self.ins[k][j], model_completion=True).as_signed_long()
                       for j in range(len(fired.inputs))]
                out.append({'step': k, 'thread': t, 'label': fired.label, 'from': pc, 'to': fired.dst, 'ins': ins})
        return out
