#!/bin/sh
# Build the overlay venv used by all checks (offline; idempotent).
set -e
V=/verif/.venv
if [ ! -x "$V/bin/python" ] || ! "$V/bin/python" -c "import z3, crosshair, numpy" 2>/dev/null; then
    rm -rf "$V"
    /venv/bin/python -m venv "$V"
    SP=$("$V/bin/python" -c "import sysconfig; print(sysconfig.get_paths()['purelib'])")
    echo "import site; site.addsitedir('/venv/lib/python3.12/site-packages')" > "$SP/_venv.pth"
    PIP_NO_INDEX=1 "$V/bin/pip" install -q --no-index --find-links /opt/veriftools/wheels crosshair-tool z3-solver >/dev/null
fi
"$V/bin/python" -c "import z3, crosshair, numpy, scipy; print('verif venv ok: z3', z3.get_version_string())"
