#!/bin/sh
# cheap consistency check of /verif itself: modules compile and import, MANIFEST and evidence files validate
cd "$(dirname "$0")/.." || exit 2
PY=.venv/bin/python
PYTHONPATH=/verif:/repo $PY -W ignore - <<'PYEOF'
import json, glob, importlib, sys, jsonschema, os
ok = True
m = json.load(open('MANIFEST.json'))
jsonschema.validate(m, json.load(open('/root/.vp/MANIFEST.schema.json')))
props = [json.loads(l)['id'] for l in open('properties.jsonl')]
claimed = [c['property_id'] for c in m['checks']]
na = [x['property_id'] for x in m.get('not_applicable', [])]
assert sorted(claimed + na) == sorted(props), (claimed, na)
es = json.load(open('/root/.vp/EVIDENCE.schema.json'))
for pid in claimed:
    mod = importlib.import_module(f'checks.{pid}')
    for tier in ('quick', 'thorough'):
        names = [j[0] for j in mod.jobs(tier)]
        assert len(names) == len(set(names)), (pid, tier, 'duplicate job names')
    p = f'evidence/{pid}.json'
    if os.path.exists(p):
        jsonschema.validate(json.load(open(p)), es)
    else:
        print('no evidence file yet for', pid); ok = False
json.load(open('known_findings.json'))
print('selfcheck', 'OK' if ok else 'INCOMPLETE', len(claimed), 'checks')
PYEOF
