#!/usr/bin/env python3
"""Run the pinned test-suite of /repo (no hooks exist, so guard off == as is) and compare with BASELINE.json."""
import json, subprocess, os, xml.etree.ElementTree as ET, sys, shutil
env = dict(os.environ, GIT_CONFIG_COUNT='1', GIT_CONFIG_KEY_0='init.defaultBranch', GIT_CONFIG_VALUE_0='master')
junit = '/tmp/baseline_check.xml'
r = subprocess.run(f'cd /repo && /venv/bin/python -m pytest -ra -q -p no:cacheprovider --timeout=900 --continue-on-collection-errors '
                   f'--basetemp=/tmp/baseline_bt --junitxml={junit}', shell=True, capture_output=True, text=True, env=env)
base = set(json.load(open('/root/.vp/BASELINE.json'))['stable_pass'])
passed = set()
for tc in ET.parse(junit).getroot().iter('testcase'):
    if not any(c.tag in ('failure', 'error', 'skipped') for c in tc):
        passed.add(f"{tc.get('classname')}::{tc.get('name')}")
missing = sorted(base - passed)
print(r.stdout.strip().splitlines()[-1])
print('stable tests still passing:', len(base & passed), 'of', len(base), '; missing:', missing)
shutil.rmtree('/tmp/baseline_bt', ignore_errors=True); os.remove(junit)
sys.exit(1 if missing else 0)
