"""C01 -- a task never starts before its dependencies have finished and published results."""
import z3
from checks import sched
from checks.sched import Config, graphs, run_job, cfg_name
from engine.threadsym import props
from engine.threadsym.roles import KINDS

PID = 'C01'
LEVEL = 'model_checking'
TARGETS = sched.TARGETS
ASSUMPTIONS = sched.ASSUMPTIONS + ['empty initial environment',
                                   "published = for a dependency whose do() returned (update, DONE): the update's result is readable; "
                                   'malformed returns are judged by C02']
OUTSIDE = sched.OUTSIDE
BOUNDS = {'quick': {'nested graphs': 'Scheduler.__init__ on every labelled (unrelated / hard / soft) graph over 3 plain tasks and one nested graph with 0 or 1 task at any place of the creation order (5832 graphs): reduction to plain-task graphs',
                    'tasks': 2, 'graphs': 'all 3 labelled graphs on 2 tasks (none/hard/soft)', 'workers': [1, 2],
                    'plus': '3-task chain and hard+soft fan-in with 1 worker; two publishers under a shared environment key (W=2)', 'outcomes': KINDS,
                    'depth': 'every run, first K = 22+11N+6W steps (completeness of K is established in the thorough tier for W=1)'},
          'thorough': {'tasks': '<= 3', 'graphs': 'all 27 labelled hard/soft/none graphs on 3 tasks (W=1), 2-task graphs W<=2; '
                       'two publishers under a shared environment key (W=2)', 'outcomes': KINDS, 'depth': 'W=1 and (<= 2 tasks or no soft edge): K = 22+11N+6W established by the unwinding query (every run is complete within K); otherwise first K steps of every run (unwinding query out of reach)'}}
EXPLANATION = ('per-thread automata extracted from the real scheduler code by symbolic execution between synchronisation points; '
               'z3 bounded model checking (QF_BV) with the interleaving, task outcomes and clock as solver variables; '
               'counterexamples replayed on real threads')
extra_coverage = sched.extra_coverage
Q1 = 'a task starts before a dependency is final and published'


def confirm(cfg, rp, kinds, extra):
    for i, snaps in rp['reads'].items():
        for snap in snaps:
            for j in props.deps_of(cfg, i):
                ent = snap.get(cfg.names[j])
                if not isinstance(ent, dict) or 'status' not in ent:
                    return f'task {cfg.names[i]} started while dependency {cfg.names[j]} has no status: {ent!r}'
                st = ent['status']
                if getattr(st, 'name', None) not in sched.FINAL:
                    return f'task {cfg.names[i]} started while dependency {cfg.names[j]} is {st!r}'
                if st.name == 'DONE' and KINDS[kinds[j]] == 'done' and 'result' not in ent:
                    return (f'task {cfg.names[i]} started and sees dependency {cfg.names[j]} DONE but its '
                            f'environment update is not readable yet: {ent!r}')
                if st.name == 'DONE' and KINDS[kinds[j]] == 'done' and getattr(cfg, 'shared', False):
                    sh = snap.get('shared')
                    if not isinstance(sh, dict) or cfg.names[j] not in sh:
                        return (f'task {cfg.names[i]} started and sees dependency {cfg.names[j]} DONE but the part of its update '
                                f'under the shared key is not readable: shared = {sh!r}')
    return None


CONFIRM = {Q1: confirm}


Q2 = 'the update published by a DONE task is lost from the environment'


def confirm_lost(cfg, rp, kinds, extra):
    if rp.get('outcome') != 'returned' or not getattr(cfg, 'shared', False):
        return None
    sh = rp['env'].get('shared')
    for j, n in enumerate(cfg.names):
        st = getattr((rp['env'].get(n) or {}).get('status'), 'name', None)
        if st == 'DONE' and KINDS[kinds[j]] == 'done' and (not isinstance(sh, dict) or n not in sh):
            return f'{n} is DONE but its part of the shared key is gone: shared = {sh!r}'
    return None


CONFIRM[Q2] = confirm_lost


def prop(an, prod):
    props.add_c01_monitor(prod)
    qs = [(Q1, lambda u: u.at(u.K, prod.pre['bad01']), confirm)]
    if prod.cfg.shared:
        p = prod.pre
        n = prod.cfg.n
        lost = []
        for j, nm in enumerate(prod.cfg.names):
            lost.append(z3.And(p[f'p{j}'], p[f'h{j}_status'], p[f'v{j}_status'] == props.DONE, p[f'kind{j}'] == 0,
                               z3.Not(z3.And(p[f'p{n}'], p[f'h{n}_{nm}'], p[f'v{n}_{nm}'] == props.payload_code(prod, j)))))
        done = z3.And(prod.terminal_kind(0, 'END'), *[prod.terminal(t) for t in range(1, prod.T)])
        qs.append((Q2, lambda u: u.at(u.K, z3.And(done, z3.Or(*lost))), confirm_lost))
    return {'init': lambda prod: z3.And(props.init_common(prod, empty_env=True), z3.Not(prod.pre['bad01'])),
            'queries': qs}


def _job(n, hard, soft, w, tier, shared=False, seed=0):
    return run_job(Config(n, hard, soft, w, shared=shared), prop, tier, seed)


def jobs(tier):
    out = sched.standard_jobs(tier, _job)
    # updates that also write under ONE environment key shared by all tasks (atomicity of Env.apply):
    # two publishers and a reader, two workers
    # (two independent publishers, two workers; the 3-task version with a reader needs > 15 min per query)
    c = Config(2, [], [], 2, shared=True)
    out.append((cfg_name(c) + '-shared', _job, dict(n=2, hard=[], soft=[], w=2, tier=tier, shared=True)))
    # graphs with a nested (possibly empty) dependency graph as a node: what Scheduler.__init__ hands to the back end (symrun)
    out.append(('handed-graphs', sched._job_handed_graphs, dict(timeout_ms=20000, clauses=['full'])))
    return out


def replay(rp):
    import sys
    if rp['job'] == 'handed-graphs':
        from engine.runner import replay_sym
        return replay_sym(lambda ex: sched.handed_graphs_harness(ex, ('full',)), rp['inputs'])
    return sched.generic_replay(sys.modules[__name__], rp)
