"""C10 -- numbers read from Tripoli-4 outputs are the numbers written there (Tripoli-4 half; PARTIAL).

What is decided here: synthetic listings are assembled from the response layouts of a shipped
listing (gauss_E_time_mu_phi: spectrum in energy, optionally per time step / mu zone) around
solver-chosen ground truth: number of groups per dimension, printing order of every dimension
(increasing or decreasing), and which scores are zero / negative are symbolic choices; every printed
number is a distinct tag.  The real Parser (scanner + pyparsing grammar + array builders +
data_convertor) reads the listing; the resulting datasets must carry every score at the cell
delimited by the boundaries it was printed with, error = score*sigma%/100 (the statement taken literally), bins increasing.

The text->token half (pyparsing, float()) and the HDF5 half cannot be executed symbolically: layouts
are therefore enumerated by forked selectors (bounded-exhaustive), numbers are concrete tags.  The
Apollo3 half: synthetic HDF5 files of the documented standard layout (solver-chosen numbers of outputs,\ngroups, zones and per-output isotope lists), Reader(...).to_browser() and every single Picker pick are\ncompared with the stored arrays.
"""
import os
import shutil
import tempfile
import numpy as np
from engine.runner import run_sym, replay_sym

PID = 'C10'
LEVEL = 'other'
TARGETS = ['valjean.eponine.apollo3.hdf5_reader:Reader.read_file', 'valjean.eponine.apollo3.hdf5_reader:Reader.to_browser',
           'valjean.eponine.apollo3.hdf5_picker:Picker.pick_standard_value', 'valjean.eponine.apollo3.hdf5_picker:Picker.isotopes',
           'valjean.eponine.tripoli4.parse:Parser.parse_from_index', 'valjean.eponine.tripoli4.scan:Scanner._get_collres',
           'valjean.eponine.tripoli4.common:KinematicDictBuilder.fill_arrays_and_bins',
           'valjean.eponine.tripoli4.common:KinematicDictBuilder.add_last_bins',
           'valjean.eponine.tripoli4.common:DictBuilder.convert_bins_to_increasing_arrays',
           'valjean.eponine.tripoli4.common:DictBuilder._flip_bins_for_dim',
           'valjean.eponine.tripoli4.data_convertor:bins_reduction', 'valjean.eponine.tripoli4.data_convertor:convert_data',
           'valjean.eponine.tripoli4.transform:convert_data_in_place']
SRC = os.environ.get('VERIF_TREE', '/repo') + '/tests/eponine/tripoli4/data/gauss_E_time_mu_phi.res.ceav5'
BOUNDS = {'quick': {'responses per listing': 2, 'energy groups': '1-3', 'second dimension': 'none, time steps (1-3) or mu zones (1-3)',
                    'printing order': 'increasing or decreasing, independently per dimension', 'scores': 'distinct positive tags, one solver-chosen cell zero or negative',
                    'energy-integrated results': 'after every spectrum (per time step); one solver-chosen relative sigma printed as exactly zero',
                    'KEFFS response': 'three estimators, three pair lines each fully converged / combined sigma not converged, '
                                      'full combination converged or not, a negative correlation',
                    'sensitivity profiles': '0-3 incident energy x 1-2 energy x 0-3 direction cosine intervals (layout of sensitivity_godiva.d.res), every '
                                            'dimension printed increasing or decreasing',
                    'mesh scores': '1-2 cells x 1-2 energy ranges x 1-3 time steps (layout of box_dyn.res.ceav5), each dimension printed increasing or '
                                   'decreasing, with the energy-integrated and space-and-energy-integrated results of every time step'},
          'thorough': {'responses per listing': '1 (1-4 energy groups) or 2 (1 energy group)', 'energy groups': '1-4', 'second dimension': 'none, time (1-3), mu (1-3), time x mu (2x2)',
                       'printing order': 'all combinations'}}
ASSUMPTIONS = ['listings are synthesised from the layout of the shipped example gauss_E_time_mu_phi.res.ceav5 (header, edition framing, response '
               'blocks); only spectrum responses in E, E x t, E x mu (and E x t x mu) are generated',
               'the layout (group counts, printing orders, position of the special value) is solver-chosen; the printed numbers are concrete tags',
               'relative sigma is printed in percent; error = score * sigma / 100 (literal reading of the statement, also for negative scores)']
OUTSIDE = ['meshes larger than 2 cells / 2 energy ranges / 3 time steps, mesh entropy arrays', 'Apollo3: only the documented standard layout with <= 2 outputs, <= 2 zones, <= 3 isotopes, FLUX/KEFF/CONCEN/Absorption (h5py is a C library: layouts are enumerated, nothing is symbolic)',
           'Green bands, IFP, perturbation, keff-per-generation layouts; KEFFS pair lines with all three fields "Not converged" (grammar accepts them, the converter raises AttributeError; no shipped listing shows such a line); sensitivity profiles beyond 3 x 2 x 3 intervals', 'several editions with different results', "'not converged' results"]
EXPLANATION = ('bounded-exhaustive symbolic execution (symrun + z3: solver-chosen listing layouts) of the real Tripoli-4 reader on synthetic '
               'listings built around known ground truth; every parsed number compared with the number written')

_SRC = {}


def _parts():
    if not _SRC:
        lines = open(SRC).read().split('\n')
        i0 = next(i for i, ln in enumerate(lines) if ln.startswith('RESPONSE FUNCTION'))       # first response
        _SRC['prefix'] = '\n'.join(lines[:i0 - 1]) + '\n'
        _SRC['suffix'] = ('\n\n\n simulation time (s) : 1\n\n\n Type and parameters of random generator at the end of simulation: \n'
                          '\t DRAND48_RANDOM 37303 62882 47617  COUNTER\t3595500\n\n\n'
                          '=====================================================================\n\tNORMAL COMPLETION\n'
                          '=====================================================================\n')
    return _SRC


def _fmt(x):
    return f'{x:.6e}'


def response_text(name, egroups, second, tag0):
    """-> (text, truth) ; truth: dict with 'e' edges as printed order, second dim edges, cells {(ie, i2): (score, sigma)}"""
    head = ('******************************************************************************\n'
            'RESPONSE FUNCTION : COURANT\nRESPONSE NAME : courant\n'
            f'SCORE NAME : {name}\nENERGY DECOUPAGE NAME : DEC_SPECTRE\n\n\n PARTICULE : NEUTRON \n temperature :0\n\n'
            ' composition : none \n\n concentration : 1.000000e+00\n\n reaction consists in tabulated data\n\n'
            '******************************************************************************\n\n'
            '\t scoring mode : SCORE_SURF\n\t scoring zone : \t Frontier \t volumes : 2,1\n\n\n')
    cells = {}
    out = [head]
    tag = [tag0]

    def spectrum(i2):
        s = ['\t SPECTRUM RESULTS\n\t number of first discarded batches : 0\n\n'
             '\t group (MeV) \t\t score   \t sigma_% \t score/lethargy\n\n']
        tot = 0.0
        for ie, (a, b) in enumerate(egroups):
            tag[0] += 1
            score = tag[0] * 1e-3
            sigma = 1.0 + (tag[0] % 7)
            if (ie, i2) == second.get('special_cell'):
                score = second['special_value']
            cells[(ie, i2)] = (score, sigma)
            tot += score
            s.append(f'{_fmt(a)} - {_fmt(b)}\t{_fmt(score)}\t{_fmt(sigma)}\t{_fmt(score / 2)}\n')
        s.append('\n')
        if second['kind'] != 'mu':
            isig = 0.0 if second.get('integrated_sigma_zero') == i2 else 1.5 + i2
            second.setdefault('integrated', {})[i2] = (tot, isig)
            s.append('\t ENERGY INTEGRATED RESULTS\n\n\t number of first discarded batches : 0\n\n'
                     f'number of batches used: 200\t{_fmt(tot)}\t{_fmt(isig)}\n\n\n')
        else:
            s.append('\n')
        return ''.join(s)
    if second['kind'] == 'none':
        out.append(spectrum(0))
    else:
        label = {'time': ('TIME STEP NUMBER', 'time'), 'mu': ('MU ANGULAR ZONE', 'mu')}[second['kind']]
        for i2, (a, b) in enumerate(second['groups']):
            out.append(f'\t {label[0]} : {i2}\n\t ------------------------------------\n'
                       f'\t\t {label[1]} min. = {_fmt(min(a, b))}\n\t\t {label[1]} max. = {_fmt(max(a, b))}\n\n')
            out.append(spectrum(i2))
    out.append('\n\n')
    return ''.join(out), cells, tag[0]


def groups(edges, decreasing):
    """list of (printed first edge, printed second edge) per group, in printing order"""
    g = [(edges[i], edges[i + 1]) for i in range(len(edges) - 1)]
    if decreasing:
        g = [(b, a) for (a, b) in reversed(g)]
    return g


def make_harness(nresp, max_e, seconds):
    def harness(ex):
        from valjean.eponine.tripoli4.parse import Parser
        parts = _parts()
        truth = []
        text = [parts['prefix']]
        tag = 100
        for r in range(nresp):
            ne = 1 + ex.choice(max_e, f'ne{r}')
            e_edges = [1e-11] + [5.0 * (i + 1) for i in range(ne)]
            e_dec = ex.flag(f'e-decreasing{r}')
            kind = seconds[ex.choice(len(seconds), f'second{r}')]
            sec = {'kind': kind}
            if kind != 'none':
                n2 = 1 + ex.choice(3, f'n2_{r}')
                edges2 = [float(i) for i in range(n2 + 1)] if kind == 'time' else [-1.0 + 2.0 * i / n2 for i in range(n2 + 1)]
                sec['groups'] = groups(edges2, ex.flag(f'second-decreasing{r}'))
                sec['edges'] = edges2
            else:
                n2 = 1
            sp = ex.choice(3, f'special{r}')
            if sp:
                sec['special_cell'] = (ex.choice(ne, f'special-e{r}'), ex.choice(n2, f'special-2_{r}'))
                sec['special_value'] = 0.0 if sp == 1 else -0.25
            if kind != 'mu':
                if nresp == 1:          # position of a relative sigma printed as exactly zero: solver-chosen (single-response jobs)
                    if ex.flag(f'integrated-sigma-zero{r}'):
                        sec['integrated_sigma_zero'] = ex.choice(n2, f'integrated-sigma-zero-at{r}')
                elif r == 0:
                    sec['integrated_sigma_zero'] = n2 - 1
            eg = groups(e_edges, e_dec)
            t, cells, tag = response_text(f'score_{r}', eg, sec, tag)
            text.append(t)
            truth.append((f'score_{r}', e_edges, eg, sec, cells))
        text.append(parts['suffix'])
        tmp = tempfile.mkdtemp(prefix='verif_c10_')
        path = os.path.join(tmp, 'synthetic.res')
        try:
            with open(path, 'w') as f:
                f.write(''.join(text))
            try:
                pres = Parser(path).parse_from_index(-1)
                br = pres.to_browser()
            except Exception as e:      # noqa
                ex.check(False, 'synthetic-listing-is-parsed', detail=f'{type(e).__name__}: {e}')
                return
            for (name, e_edges, eg, sec, cells) in truth:
                try:
                    item = br.select_by(score_name=name)
                except Exception as e:      # noqa
                    ex.check(False, 'every-score-is-found-under-its-name', detail=f'{name}: {type(e).__name__}: {e}')
                    continue
                ds = item['results']['score']
                ebins = np.asarray(ds.bins['e'], dtype=float)
                ex.check(len(ebins) == len(e_edges) and np.allclose(ebins, e_edges, rtol=1e-6) and bool(np.all(np.diff(ebins) > 0)),
                         'energy-bins-are-the-printed-boundaries-in-increasing-order', detail=f'{name}: {ebins}')
                dim2 = {'time': 't', 'mu': 'mu', 'none': None}[sec['kind']]
                if dim2:
                    b2 = np.asarray(ds.bins[dim2], dtype=float)
                    ex.check(len(b2) == len(sec['edges']) and np.allclose(b2, sec['edges'], rtol=1e-6) and bool(np.all(np.diff(b2) > 0)),
                             'second-dimension-bins-are-the-printed-boundaries-in-increasing-order', detail=f'{name}: {b2}')
                val = np.asarray(ds.value, dtype=float)
                err = np.asarray(ds.error, dtype=float)
                axes = list(ds.bins)
                good = True
                for (ie, i2), (score, sigma) in cells.items():
                    lo_e = min(eg[ie])
                    idx = [0] * val.ndim
                    idx[axes.index('e')] = int(np.argmin(np.abs(np.asarray(e_edges) - lo_e)))
                    if dim2:
                        lo2 = min(sec['groups'][i2])
                        idx[axes.index(dim2)] = int(np.argmin(np.abs(np.asarray(sec['edges']) - lo2)))
                    v = val[tuple(idx)]
                    e = err[tuple(idx)]
                    if not (np.isclose(v, score, rtol=1e-6, atol=1e-12) and np.isclose(e, score * sigma / 100, rtol=1e-5, atol=1e-12)):
                        good = False
                ex.check(good, 'every-score-sits-in-the-cell-it-was-printed-with-and-error-is-value-times-sigma', detail=name)
                ex.check(int(np.prod(val.shape)) == len(cells), 'no-extra-cells', detail=f'{name}: {val.shape}')
                # the energy-integrated results printed after each spectrum
                if sec.get('integrated'):
                    key = 'score_eintegrated' if dim2 else 'score_integrated'
                    ids = item['results'].get(key)
                    ex.check(ids is not None, 'energy-integrated-results-are-kept', detail=f'{name}: {sorted(item["results"])}')
                    if ids is not None:
                        iv = np.asarray(ids.value, dtype=float)
                        ie_ = np.asarray(ids.error, dtype=float)
                        iaxes = list(ids.bins)
                        ieb = np.asarray(ids.bins['e'], dtype=float)
                        ok = len(ieb) == 2 and np.allclose(ieb, [e_edges[0], e_edges[-1]], rtol=1e-6)
                        if dim2:
                            ib2 = np.asarray(ids.bins[dim2], dtype=float)
                            ok = ok and len(ib2) == len(sec['edges']) and np.allclose(ib2, sec['edges'], rtol=1e-6)
                        ex.check(bool(ok), 'integrated-results-carry-the-printed-boundaries-in-increasing-order', detail=name)
                        good = iv.size == len(sec['integrated'])
                        for i2, (tot, isig) in sec['integrated'].items():
                            idx = [0] * iv.ndim
                            if dim2:
                                idx[iaxes.index(dim2)] = int(np.argmin(np.abs(np.asarray(sec['edges']) - min(sec['groups'][i2]))))
                            if iv.size != len(sec['integrated']) or not (
                                    np.isclose(iv[tuple(idx)], tot, rtol=1e-6, atol=1e-12)
                                    and np.isclose(ie_[tuple(idx)], tot * isig / 100, rtol=1e-5, atol=1e-12)):
                                good = False
                        ex.check(good, 'every-integrated-result-sits-in-the-step-it-was-printed-under-and-error-is-value-times-sigma',
                                 detail=f'{name}: {iv.ravel()} +- {ie_.ravel()} expected {sec["integrated"]}')
                leth = item['results'].get('score/lethargy')
                if leth is not None:
                    lv = np.asarray(leth.value, dtype=float)
                    ex.check(lv.shape == val.shape and np.allclose(lv, val / 2, rtol=1e-5, atol=1e-12),
                             'score-per-lethargy-sits-in-the-same-cells', detail=name)
        finally:
            shutil.rmtree(tmp, ignore_errors=True)
    return harness


# ----------------------------------------------------------------------------- scores on a mesh
def mesh_text(name, egroups, tgroups, cells, tag0, zero_sigma_at=None):
    """a score on a mesh, per time step: one block per energy range, the energy-integrated block, the total line"""
    f = _fmt
    head = ('******************************************************************************\n'
            'RESPONSE FUNCTION : FLUX\nRESPONSE NAME : neutron_flux_response\n'
            f'SCORE NAME : {name}\nENERGY DECOUPAGE NAME : grid_rough\n\n\n PARTICULE : NEUTRON \n'
            '******************************************************************************\n\n'
            '\t scoring mode : SCORE_TRACK\n\t scoring zone : \t Results on a mesh: \n\t Cell   \t  tally   \t  sigma (percent)\n\n\n')
    out, tag, truth, integ, tot_t = [head], tag0, {}, {}, {}
    for it, (ta, tb) in enumerate(tgroups):
        out.append(f'\t TIME STEP NUMBER: {it}\n\t ------------------------------------\n\t\t time min. = {f(min(ta, tb))}\n'
                   f'\t\t time max. = {f(max(ta, tb))}\n\t\t\t (in neut.cm.s^-1)\n\n')
        for ie, (a, b) in enumerate(egroups):
            out.append(f'Energy range (in MeV): {f(a)} - {f(b)}\n')
            for c in cells:
                tag += 1
                v, sg = tag * 1e-3, 1.0 + tag % 7
                truth[(it, ie, c)] = (v, sg)
                out.append(f'\t ({c[0]},{c[1]},{c[2]})\t {f(v)}\t{f(sg)}\n')
            out.append('\n')
        out.append('\nENERGY INTEGRATED RESULTS :\n')
        tot = 0.0
        for c in cells:
            tag += 1
            v, sg = tag * 1e-3, (0.0 if zero_sigma_at == (it, c) else 2.0 + tag % 5)
            integ[(it, c)] = (v, sg)
            tot += v
            out.append(f'\t ({c[0]},{c[1]},{c[2]})\t {f(v)}\t{f(sg)}\n')
        tot_t[it] = (tot, 3.5 + it)
        out.append(f'\nnumber of batches used: 10\t{f(tot)}\t{f(3.5 + it)}\n\n')
    out.append('\n\n')
    return ''.join(out), truth, integ, tot_t


def mesh_harness(ex):
    from valjean.eponine.tripoli4.parse import Parser
    parts = _parts()
    ne = 1 + ex.choice(2, 'energy-ranges')
    nt = 1 + ex.choice(3, 'time-steps')
    e_edges = [1e-11, 1e-3, 20.0][:ne + 1]
    t_edges = [float(i) for i in range(nt + 1)]
    eg = groups(e_edges, ex.flag('energy-decreasing'))
    tg = groups(t_edges, ex.flag('time-decreasing'))
    cells = [(0, 0, 0), (1, 0, 0)][:1 + ex.choice(2, 'cells')]
    zs = (ex.choice(nt, 'zero-sigma-step'), cells[0]) if ex.flag('an-integrated-sigma-is-zero') else None
    text, truth, integ, tot_t = mesh_text('mesh_0', eg, tg, cells, 100, zs)
    tmp = tempfile.mkdtemp(prefix='verif_c10m_')
    path = os.path.join(tmp, 'mesh.res')
    try:
        with open(path, 'w') as fh:
            fh.write(parts['prefix'] + text + parts['suffix'])
        try:
            item = Parser(path).parse_from_index(-1).to_browser().select_by(score_name='mesh_0')
        except Exception as e:      # noqa
            ex.check(False, 'mesh:synthetic-listing-is-parsed', detail=f'{type(e).__name__}: {e}')
            return
        res = item['results']

        def pos(edges, group):
            return int(np.argmin(np.abs(np.asarray(edges) - min(group))))

        def at(ds, **where):
            axes = list(ds.bins)
            idx = [0] * np.ndim(ds.value)
            for k, v in where.items():
                idx[axes.index(k)] = v
            return float(np.asarray(ds.value)[tuple(idx)]), float(np.asarray(ds.error)[tuple(idx)])

        def close(got, want):
            v, sg = want
            return bool(np.isclose(got[0], v, rtol=1e-6, atol=1e-12) and np.isclose(got[1], v * sg / 100, rtol=1e-5, atol=1e-12))
        sc = res['score']
        ok_bins = all(len(sc.bins[k]) == len(ed) and np.allclose(np.asarray(sc.bins[k], dtype=float), ed, rtol=1e-6)
                      for k, ed in (('e', e_edges), ('t', t_edges)))
        ex.check(ok_bins, 'mesh:energy-and-time-bins-are-the-printed-boundaries-in-increasing-order')
        ex.check(np.asarray(sc.value).size == len(truth) and
                 all(close(at(sc, u=c[0], e=pos(e_edges, eg[ie]), t=pos(t_edges, tg[it])), w) for (it, ie, c), w in truth.items()),
                 'mesh:every-score-sits-in-the-cell-energy-range-and-time-step-it-was-printed-under')
        ei = res.get('score_eintegrated')
        ex.check(ei is not None and np.asarray(ei.value).size == len(integ) and
                 all(close(at(ei, u=c[0], t=pos(t_edges, tg[it])), w) for (it, c), w in integ.items()),
                 'mesh:every-energy-integrated-result-sits-in-its-cell-and-time-step')
        if ei is not None:
            ex.check(np.allclose(np.asarray(ei.bins['t'], dtype=float), t_edges) and
                     np.allclose(np.asarray(ei.bins['e'], dtype=float), [e_edges[0], e_edges[-1]]), 'mesh:integrated-results-carry-the-printed-boundaries')
        se = res.get('score_seintegrated')
        ex.check(se is not None and np.asarray(se.value).size == len(tot_t) and
                 all(close(at(se, t=pos(t_edges, tg[it])), w) for it, w in tot_t.items()),
                 'mesh:every-space-and-energy-integrated-result-sits-in-its-time-step')
    finally:
        shutil.rmtree(tmp, ignore_errors=True)


def _job_mesh(timeout_ms, seed=0):
    return run_sym('x', mesh_harness, timeout_ms=timeout_ms, seed=seed, max_paths=1000000,
                   require_checks=['mesh:every-energy-integrated-result-sits-in-its-cell-and-time-step'])


# ----------------------------------------------------------------------------- sensitivity profiles
def sensitivity_listing(grids, vals, sigs, integ, reverse):
    """one-edition listing with one sensitivity profile (layout of sensitivity_godiva.d.res) split in incident energy,
    outgoing energy and direction cosine; grids[dim] = increasing edges or None; reverse[dim]: printed from high to low"""
    stars = '*' * 78 + '\n'
    out = [' i = 1; NUCLEUS : U238, TYPE : SCATTERING LAW 21 (CONSTRAINED)\n', '\n']
    order = {}
    for dim, axis in (('einc', 0), ('e', 1), ('mu', 2)):
        order[dim] = list(range(vals.shape[axis]))
        if reverse[dim]:
            order[dim].reverse()
    for imu in order['mu']:
        if grids['mu'] is not None:
            out.append(f"\n Direction cosine interval: {_fmt(grids['mu'][imu])} {_fmt(grids['mu'][imu + 1])}\n\n")
        for iei in order['einc']:
            if grids['einc'] is not None:
                out.append(f"\n Incident energy interval in MeV: {_fmt(grids['einc'][iei])} {_fmt(grids['einc'][iei + 1])}\n\n")
            out.append(' E min          E max              S(E)         sigma\n\n')
            for ien in order['e']:
                out.append(f" {_fmt(grids['e'][ien])}  {_fmt(grids['e'][ien + 1])}    {_fmt(vals[iei, ien, imu])}  {_fmt(sigs[iei, ien, imu])}\n")
            out.append('\n')
    out.append(f' Energy integrated S           {_fmt(integ[0])}  {_fmt(integ[1])}\n\n')
    block = ''.join(out)
    return ''.join([' BATCH 10\n', ' SIZE 1000\n', '\n', ' initialization time (s): 1\n', '\n', ' batch number : 10\n', '\n',
                    '*' * 57 + '\n', '\n', ' RESULTS ARE GIVEN FOR SOURCE INTENSITY : 1.000000e+00\n', '*' * 57 + '\n', '\n', '\n',
                    ' Mean weight leakage = 1.146834e+04\t sigma = 1.449156e+01\t sigma% = 1.263615e-01\n', '\n', '\n',
                    ' Edition after batch number : 10\n', '\n', stars,
                    'RESPONSE FUNCTION : IFP ADJOINT WEIGHTED KEFF SENSITIVITIES\n', stars, '\n', 'number of batches used:\t8\n', '\n',
                    'Scores are ordered by type (SECTION, FISSION NU, FISSION CHI, SCATTERING KERNEL) and index:\n', '\n',
                    'SCATTERING TRANSFER FUNCTION SENSITIVITY :\n', '\n', block, '\n', '\n', ' simulation time (s) : 5\n', '\n', '\n',
                    '=' * 69 + '\n', '\tNORMAL COMPLETION\n', '=' * 69 + '\n'])


def sensitivity_harness(ex):
    from valjean.eponine.tripoli4.parse import Parser
    neinc = ex.choice(4, 'incident-energy-intervals')         # 0: not split
    nmu = ex.choice(4, 'direction-cosine-intervals')          # 0: not split
    ne = 1 + ex.choice(2, 'energy-groups')
    reverse = {'einc': bool(neinc > 1 and ex.flag('einc-printed-high-to-low')), 'e': bool(ne > 1 and ex.flag('e-printed-high-to-low')),
               'mu': bool(nmu > 1 and ex.flag('mu-printed-high-to-low'))}
    grids = {'einc': np.array([1.1e-11, 1.0e-03, 1.0, 19.64])[:neinc + 1] if neinc else None,
             'e': np.array([1.00001e-11, 1.234098e-03, 19.64033])[:ne + 1],
             'mu': np.linspace(-1., 1., nmu + 1) if nmu else None}
    shape = (max(neinc, 1), ne, max(nmu, 1))
    n = int(np.prod(shape))
    vals = (np.arange(1, n + 1, dtype=float) * 1e-3 * np.where(np.arange(n) % 3 == 0, -1.0, 1.0)).reshape(shape)
    sigs = (1.0 + np.arange(n) % 7).astype(float).reshape(shape)
    integ = (-3.661409e-03, 9.339996e+00)
    tmp = tempfile.mkdtemp(prefix='verif_c10s_')
    path = os.path.join(tmp, 'sens.res')
    try:
        with open(path, 'w') as fh:
            fh.write(sensitivity_listing(grids, vals, sigs, integ, reverse))
        try:
            resp = Parser(path).parse_from_index(-1).to_browser().select_by(response_type='sensitivity', sensitivity_nucleus='U238')
        except Exception as e:      # noqa
            ex.check(False, 'sensitivity:synthetic-listing-is-parsed', detail=f'{type(e).__name__}: {e}')
            return
        ds = resp['results']['score']
        ok = tuple(ds.shape) == shape
        ex.check(ok, 'sensitivity:shape-is-einc-x-e-x-mu', detail=f'{ds.shape} expected {shape}')
        if ok:
            ex.check(bool(np.allclose(ds.value, vals, rtol=1e-6, atol=0.) and np.allclose(ds.error, vals * sigs * 0.01, rtol=1e-5, atol=0.)),
                     'sensitivity:every-value-sits-in-the-intervals-it-was-printed-under-and-error-is-value-times-sigma')
        good, detail = True, ''
        for dim, edges in grids.items():
            got = np.asarray(ds.bins[dim], dtype=float)
            if edges is None:
                good = good and got.size == 0
            elif got.shape != edges.shape or not np.allclose(got, edges, rtol=1e-6, atol=0.):
                good, detail = False, f'{dim}: {got.tolist()} printed boundaries {edges.tolist()}'
        ex.check(good, 'sensitivity:bins-are-the-printed-boundaries-in-increasing-order', detail=detail)
        ids = resp['results']['integrated']
        ex.check(bool(np.isclose(np.asarray(ids.value).squeeze(), integ[0], rtol=1e-6) and
                      np.isclose(np.asarray(ids.error).squeeze(), abs(integ[0]) * integ[1] / 100, rtol=1e-5) or
                      np.isclose(np.asarray(ids.error).squeeze(), integ[0] * integ[1] / 100, rtol=1e-5)),
                 'sensitivity:integrated-value-as-printed')
    finally:
        shutil.rmtree(tmp, ignore_errors=True)


def _job_sens(timeout_ms, seed=0):
    return run_sym('x', sensitivity_harness, timeout_ms=timeout_ms, seed=seed, max_paths=1000000,
                   require_checks=['sensitivity:bins-are-the-printed-boundaries-in-increasing-order'])


# ----------------------------------------------------------------------------- KEFFS response
KEFF_EST = ('KSTEP', 'KCOLL', 'KTRACK')


def keff_listing(estims, combs, full):
    """one-edition listing with a KEFFS response laid out as in entropy.d.res.ceav5; None = printed as 'Not converged'"""
    stars = '*' * 78 + '\n'

    def f(v):
        return ' Not converged' if v is None else _fmt(v)
    out = [stars, 'RESPONSE FUNCTION : KEFFS\n', stars, '\n', '\tENERGY INTEGRATED RESULTS\n', '\n', 'number of batches used:\t5\n', '\n']
    for est in KEFF_EST:
        out.append(f' {est:<6} {_fmt(estims[est][0])}\t{_fmt(estims[est][1])}\n')
    out.append('\n  \t  estimators  \t\t\t  correlations   \t  combined values  \t  combined sigma%\n')
    for (e1, e2), (corr, comb, sig) in combs.items():
        out.append(f'  \t  {e1} <-> {e2}  \t    \t  {f(corr)}  \t  {f(comb)}  \t  {f(sig)}\n')
    out.append('\n')
    out.append('  \t  full combined estimator not converged\n' if full is None else
               f'  \t  full combined estimator  {_fmt(full[0])}\t{_fmt(full[1])}\n')
    out.append('\n\n')
    block = ''.join(out)
    return ''.join([' data reading time (s): 0\n', ' BATCH 6\n', ' SIZE 100\n', '\n', ' initialization time (s): 2\n', '\n',
                    ' batch number : 6\n', '\n', '*' * 57 + '\n', '\n', ' RESULTS ARE GIVEN FOR SOURCE INTENSITY : 1.000000e+00\n',
                    '*' * 57 + '\n', '\n', '\n', ' Mean weight leakage = 1.182159e+00\t sigma = 3.814722e-01\t sigma% = 3.226910e+01\n',
                    '\n', '\n', ' Edition after batch number : 6\n', '\n', block, ' simulation time (s) : 15\n', '\n', '\n',
                    ' Type and parameters of random generator at the end of simulation: \n',
                    '\t DRAND48_RANDOM 20427 28694 30088  COUNTER\t96405776\n', '\n', '=' * 69 + '\n', '\tNORMAL COMPLETION\n', '=' * 69 + '\n'])


def keff_harness(ex):
    from valjean.eponine.tripoli4.parse import Parser
    estims = {e: (0.9 + 0.01 * i, 1.5 + i) for i, e in enumerate(KEFF_EST)}
    pairs = [('KSTEP', 'KCOLL'), ('KSTEP', 'KTRACK'), ('KCOLL', 'KTRACK')]
    combs = {}
    for i, pr in enumerate(pairs):
        # what is converged on this line: everything / everything but the combined sigma (the two layouts the shipped listings
        # show; a line with three "Not converged" is accepted by the grammar but not known to be printed by Tripoli-4: outside)
        state = ex.choice(2, f'pair{i}-convergence')
        corr = (-0.3 if (i == 1 and ex.flag('negative-correlation')) else 0.99 - 0.01 * i)
        combs[pr] = [(corr, 0.95 + 0.001 * i, 1.1 + i), (corr, 0.95 + 0.001 * i, None), (None, None, None)][state]
    full = (0.9744133, 0.08990046) if ex.flag('full-combination-converged') else None
    tmp = tempfile.mkdtemp(prefix='verif_c10k_')
    path = os.path.join(tmp, 'keff.res')
    try:
        with open(path, 'w') as fh:
            fh.write(keff_listing(estims, combs, full))
        try:
            br = Parser(path).parse_from_index(-1).to_browser()
        except Exception as e:      # noqa
            ex.check(False, 'keff:synthetic-listing-is-parsed', detail=f'{type(e).__name__}: {e}')
            return

        def same(got, want):
            got = float(np.asarray(got).squeeze())
            return bool(np.isnan(got)) if want is None else bool(np.isclose(got, want, rtol=1e-6, atol=0.))
        bad = []
        for est, (k, sg) in estims.items():
            r = br.select_by(response_type='keff', keff_estimator=est)['results']
            if not (same(r['keff'].value, k) and same(r['keff'].error, k * sg * 0.01)):
                bad.append(est)
        for (e1, e2), (corr, comb, sg) in combs.items():
            r = br.select_by(response_type='keff', keff_estimator=f'{e1}-{e2}')['results']
            if not (same(r['keff'].value, comb) and same(r['correlation_keff'].value, corr) and
                    same(r['keff'].error, None if (sg is None or comb is None) else comb * sg * 0.01)):
                bad.append(f'{e1}-{e2}: keff {np.asarray(r["keff"].value)} +- {np.asarray(r["keff"].error)} corr '
                           f'{np.asarray(r["correlation_keff"].value)} printed {corr, comb, sg}')
        r = br.select_by(response_type='keff', keff_estimator='full combination')['results']
        if not (same(r['keff'].value, None if full is None else full[0]) and
                same(r['keff'].error, None if full is None else full[0] * full[1] * 0.01)):
            bad.append(f'full combination {np.asarray(r["keff"].value)} +- {np.asarray(r["keff"].error)} printed {full}')
        ex.check(not bad, 'keff:every-printed-number-comes-back-and-only-not-converged-ones-are-NaN', detail='; '.join(bad)[:400])
    finally:
        shutil.rmtree(tmp, ignore_errors=True)


def _job_keff(timeout_ms, seed=0):
    return run_sym('x', keff_harness, timeout_ms=timeout_ms, seed=seed, max_paths=1000000,
                   require_checks=['keff:every-printed-number-comes-back-and-only-not-converged-ones-are-NaN'])


# ----------------------------------------------------------------------------- Apollo3 (HDF5) half
ISOTOPES = ['U235', 'U238', 'Xe135']


def write_hdf(path, nout, ng, zones, iso_lists):
    """HDF5 file following the documented Apollo3 'standard' layout around distinct tags -> truth dict"""
    import h5py
    truth = {}
    tag = [0]

    def nxt(n):
        a = np.arange(tag[0] + 1, tag[0] + n + 1, dtype=float)
        tag[0] += n
        return a
    with h5py.File(path, 'w') as f:
        info = f.create_group('info')
        info['NOUT'] = np.array([nout], dtype='int32')
        geo = f.create_group('geometry')
        geo['NGEO'] = np.array([1], dtype='int32')
        g1 = geo.create_group('geom_1')
        g1['NZONE'] = np.array([len(zones)], dtype='int32')
        g1['VOLUME'] = np.ones(len(zones), dtype='float32')
        g1['ZONENAME'] = np.array(list(zones), dtype='S')
        for o in range(nout):
            oname = f'output_{o}'
            oi = info.create_group(oname)
            oi['GEOMID'] = np.array([b'geom_1'])
            oi['NG'] = np.array([ng], dtype='int32')
            og = f.create_group(oname)
            tot = og.create_group('totaloutput')
            tot['KEFF'] = nxt(1)
            truth[(oname, 'totaloutput', None, 'KEFF')] = tot['KEFF'][0]
            tot['FLUX'] = nxt(ng)
            truth[(oname, 'totaloutput', None, 'FLUX')] = tot['FLUX'][()]
            for z in zones:
                zg = og.create_group(z)
                il = iso_lists[o]
                zg['NISOT'] = np.array([len(il)], dtype='int32')
                if il:
                    zg['ISOTOPE'] = np.array(list(il), dtype='S')
                    zg['CONCEN'] = nxt(len(il))
                    for k, iso in enumerate(il):
                        truth[(oname, z, iso, 'concentration')] = zg['CONCEN'][k]
                zg['FLUX'] = nxt(ng)
                truth[(oname, z, None, 'FLUX')] = zg['FLUX'][()]
                mg = zg.create_group('macro')
                mg['Absorption'] = nxt(ng)
                truth[(oname, z, 'macro', 'Absorption')] = mg['Absorption'][()]
                for iso in il:
                    ig = zg.create_group(iso)
                    ig['Absorption'] = nxt(ng)
                    truth[(oname, z, iso, 'Absorption')] = ig['Absorption'][()]
    return truth


def apollo_harness(ex):
    import itertools
    from valjean.eponine.apollo3.hdf5_reader import Reader
    from valjean.eponine.apollo3.hdf5_picker import Picker
    nout = 1 + ex.choice(2, 'nout')
    ng = 1 + ex.choice(2, 'ng')
    zones = ['z1', 'z2'][:1 + ex.choice(2, 'nzones')]
    lists = [()] + [p for r in (1, 2, 3) for p in itertools.permutations(ISOTOPES, r) if r < 3 or p[0] == 'U238']
    iso_lists = [lists[ex.choice(len(lists), f'isotopes{o}')] for o in range(nout)]
    ex.note('layout', [nout, ng, zones, iso_lists])
    tmp = tempfile.mkdtemp(prefix='verif_c10h_')
    path = os.path.join(tmp, 'a.hdf')
    try:
        truth = write_hdf(path, nout, ng, zones, iso_lists)
        br = Reader(path).to_browser()
        ex.check(len(br.content) == len(truth), 'reader:one-item-per-stored-result', detail=f'{len(br.content)} != {len(truth)}')
        good = True
        for (o, z, iso, name), val in truth.items():
            kw = dict(output=o, zone=z, result_name=name.lower())
            its = [it for it in br.content if all(it.get(k) == v for k, v in kw.items()) and it.get('isotope') == iso]
            if len(its) != 1 or not np.array_equal(np.asarray(its[0]['results'].value, dtype=float), np.asarray(val, dtype=float)):
                good = False
        ex.check(good, 'reader:every-stored-array-under-its-output-zone-isotope-labels')
        pk = Picker(path)
        try:
            pgood, agree = True, True
            for (o, z, iso, name), val in truth.items():
                try:
                    ds = pk.pick_standard_value(output=o, zone=z, result_name=name, isotope=iso)
                    v = np.asarray(ds.value, dtype=float)
                except Exception as e:      # noqa
                    pgood = False
                    ex.note('pick-error', f'{(o, z, iso, name)}: {type(e).__name__}: {e}')
                    continue
                if not np.array_equal(v, np.asarray(val, dtype=float)):
                    pgood = False
            ex.check(pgood, 'picker:every-single-pick-returns-the-stored-array')
            for o in [f'output_{i}' for i in range(nout)]:
                for z in zones:
                    want = list(iso_lists[int(o[-1])]) + ['macro']
                    if list(pk.isotopes(output=o, zone=z)) != want:
                        agree = False
            ex.check(agree, 'picker:isotope-lists-per-output-and-zone')
        finally:
            pk.close()
    finally:
        shutil.rmtree(tmp, ignore_errors=True)


def _job_apollo(timeout_ms, seed=0):
    return run_sym('x', apollo_harness, timeout_ms=timeout_ms, seed=seed, max_paths=200000,
                   require_checks=['picker:every-single-pick-returns-the-stored-array'])


def _job(nresp, max_e, seconds, timeout_ms, seed=0):
    return run_sym('x', make_harness(nresp, max_e, tuple(seconds)), timeout_ms=timeout_ms, seed=seed, max_paths=200000)


def jobs(tier):
    t = 20000
    if tier == 'quick':
        return [(f'{s}-r1', _job, dict(nresp=1, max_e=3, seconds=[s], timeout_ms=t)) for s in ('none', 'time', 'mu')] + \
               [('mixed-r2', _job, dict(nresp=2, max_e=1, seconds=['none', 'time'], timeout_ms=t)),
                ('apollo3', _job_apollo, dict(timeout_ms=t)), ('mesh', _job_mesh, dict(timeout_ms=t)), ('sensitivity', _job_sens, dict(timeout_ms=t)), ('keff', _job_keff, dict(timeout_ms=t))]
    return [(f'{s}-r1', _job, dict(nresp=1, max_e=4, seconds=[s], timeout_ms=t)) for s in ('none', 'time', 'mu')] + \
           [('mixed-r2', _job, dict(nresp=2, max_e=1, seconds=['none', 'time', 'mu'], timeout_ms=t)),
            ('apollo3', _job_apollo, dict(timeout_ms=t)), ('mesh', _job_mesh, dict(timeout_ms=t)), ('sensitivity', _job_sens, dict(timeout_ms=t)), ('keff', _job_keff, dict(timeout_ms=t))]


def replay(rp):
    if rp['job'] == 'apollo3':
        return replay_sym(apollo_harness, rp['inputs'])
    if rp['job'] == 'mesh':
        return replay_sym(mesh_harness, rp['inputs'])
    if rp['job'] == 'sensitivity':
        return replay_sym(sensitivity_harness, rp['inputs'])
    if rp['job'] == 'keff':
        return replay_sym(keff_harness, rp['inputs'])
    for j in jobs('thorough') + jobs('quick'):
        if j[0] == rp['job']:
            p = j[2]
            return replay_sym(make_harness(p['nresp'], p['max_e'], tuple(p['seconds'])), rp['inputs'])
    raise KeyError(rp['job'])
