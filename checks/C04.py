"""C04 -- re-running a job re-executes exactly the tasks whose results are out of date.

Histories of runs are not unrolled: ONE run is checked from an ARBITRARY persisted environment
satisfying the invariant that the documented carry-over (only DONE entries are merged) provides, and
the invariant is re-established at the end, so the step composes over histories of any length.
"""
import z3
from checks import sched, C03
from checks.sched import Config, run_job
from engine.threadsym import props
from engine.threadsym.roles import KINDS

PID = 'C04'
LEVEL = 'model_checking'
TARGETS = sched.TARGETS + ['valjean.cosette.env:Env.merge_done_tasks']
ASSUMPTIONS = sched.ASSUMPTIONS + [
    'inductive step over histories: the initial environment is arbitrary under the invariant of carried-over environments: every present '
    'entry is DONE with its (old) result and clocks start <= end < now; any subset of entries may be missing (failed, lost, newly added tasks). '
    'For the SECOND clause (no needless re-execution) the persisted clocks are also consistent with the current graph (a present dependency of a '
    'present task ended before the task started); the FIRST clause is asked without that assumption, so that dependency edges added between two '
    'runs (between tasks whose executions overlapped earlier) are inside the quantifier -- for the 2-task configurations, in both tiers; the '
    '3-task configurations keep the assumption for both clauses (their queries need more than 10 minutes each without it)',
    'time.time() of this run returns instants later than every persisted one']
OUTSIDE = sched.OUTSIDE + ['the byte-level persistence of environments (C14)']
BOUNDS = {'quick': {'tasks': '2 (all 3 graphs, 1 worker), 3-task chain with 1 worker; + a chain whose soft dependent is created BEFORE its dependency',
                    'initial environment': 'solver-chosen under the invariant', 'outcomes': KINDS,
                    'depth': 'every run, first K = 22+11N+6W steps'},
          'thorough': {'tasks': '<= 3', 'graphs': 'all 27 labelled graphs on 3 tasks (W=1), 2-task graphs W=1 (two workers: outside, queries need 30-75 min from an arbitrary initial environment)',
                       'outcomes': KINDS, 'depth': 'W=1 and (<= 2 tasks or no soft edge): K = 22+11N+6W established by the unwinding query (every run is complete within K); otherwise first K steps of every run (unwinding query out of reach)'}}
EXPLANATION = ('extracted thread automata + z3 bounded model checking (QF_BV) of ONE run from an arbitrary persisted environment (inductive step over '
               'histories of runs); stale-result and needless re-execution conditions decided at termination; counterexamples replayed on real threads')
extra_coverage = sched.extra_coverage
Q1 = 'a task is DONE although a DONE dependency finished after it started, or a hard dependency failed'
Q2 = 'an up-to-date DONE task was executed again or its record changed'


def trans_deps(cfg, i):
    seen, todo = set(), list(props.deps_of(cfg, i))
    while todo:
        j = todo.pop()
        if j not in seen:
            seen.add(j)
            todo.extend(props.deps_of(cfg, j))
    return sorted(seen)


def init(prod):
    p = prod.pre
    cfg = prod.cfg
    cs = [props.init_common(prod, empty_env=False)]
    for i in range(cfg.n):
        ent = z3.And(p[f'h{i}_status'], p[f'v{i}_status'] == props.DONE,
                     p[f'h{i}_result'], p[f'v{i}_result'] == props.payload_code(prod, i, 'old'),
                     p[f'h{i}_start_clock'], p[f'h{i}_end_clock'],
                     p[f'v{i}_start_clock'] >= 0, p[f'v{i}_end_clock'] >= p[f'v{i}_start_clock'],
                     p[f'v{i}_end_clock'] < p['clk'])
        absent = z3.And(*[z3.Not(p[f'h{i}_{f}']) for f in prod.schema.fields])
        cs.append(z3.If(p[f'p{i}'], ent, absent))
        for f in prod.schema.fields:
            if f not in ('status', 'result', 'start_clock', 'end_clock'):
                cs.append(z3.Not(p[f'h{i}_{f}']))
    if not RELAXED:
        cs.append(ordered(cfg, p))
    cs.append(p['clk'] < 40)
    return z3.And(*cs)


RELAXED = True      # set per job: 2-task configurations ask the first clause without the clock-consistency assumption


def ordered(cfg, s0):
    """the persisted records are consistent with the CURRENT graph: a present dependency of a present task ended before the task
    started.  Assumed by the second clause only; the first clause is asked from environments that violate it too (a dependency
    edge added between two runs, between tasks that overlapped in an earlier run)"""
    return z3.And(*[z3.Implies(z3.And(s0[f'p{i}'], s0[f'p{j}']), s0[f'v{j}_end_clock'] <= s0[f'v{i}_start_clock'])
                    for i in range(cfg.n) for j in props.deps_of(cfg, i)])


def _is(p, i, st):
    return z3.And(p[f'p{i}'], p[f'h{i}_status'], p[f'v{i}_status'] == st)


def stale(prod):
    """state predicate (final state): some DONE task violates the first clause"""
    p = prod.pre
    cfg = prod.cfg
    bad = []
    for i in range(cfg.n):
        for j in props.deps_of(cfg, i):
            bad.append(z3.And(_is(p, i, props.DONE), _is(p, j, props.DONE),
                              z3.Not(z3.And(p[f'h{j}_end_clock'], p[f'h{i}_start_clock'],
                                            p[f'v{j}_end_clock'] <= p[f'v{i}_start_clock']))))
        for j in props.hard_deps_of(cfg, i):
            bad.append(z3.And(_is(p, i, props.DONE), z3.Or(_is(p, j, props.FAILED), _is(p, j, props.SKIPPED))))
    return z3.Or(*bad) if bad else z3.BoolVal(False)


def finished(prod):
    return z3.And(prod.terminal_kind(0, 'END'), *[prod.terminal(t) for t in range(1, prod.T)])


def py_check(cfg, init_env, env, counts):
    """the two clauses on concrete environments; returns (msg1, msg2)"""
    def st(n):
        return getattr((env.get(n) or {}).get('status'), 'name', None)
    m1 = m2 = None
    for i, n in enumerate(cfg.names):
        if st(n) != 'DONE':
            continue
        for j in props.deps_of(cfg, i):
            d = cfg.names[j]
            if st(d) == 'DONE':
                e, s = (env[d].get('end_clock'), env[n].get('start_clock'))
                if e is None or s is None or not e <= s:
                    m1 = f'{n} is DONE but its DONE dependency {d} ended at {e}, after {n} started ({s}): stale result'
        for j in props.hard_deps_of(cfg, i):
            if st(cfg.names[j]) in ('FAILED', 'SKIPPED'):
                m1 = f'{n} is DONE although its hard dependency {cfg.names[j]} is {st(cfg.names[j])}'
    for i, n in enumerate(cfg.names):
        td = trans_deps(cfg, i)
        if init_env.get(n) is not None and all(init_env.get(cfg.names[j]) is not None for j in td) \
                and all(counts[j] == 0 for j in td):
            same = env.get(n) is not None and all(env[n].get(k) == v for k, v in init_env[n].items()) \
                and set(env[n]) == set(init_env[n])
            if counts[i] != 0 or not same:
                m2 = (f'{n} was DONE, all its transitive dependencies were DONE and none was re-executed, but it was executed '
                      f'{counts[i]} time(s) / its record changed: {init_env[n]} -> {env.get(n)}')
    return m1, m2


def confirm1(cfg, rp, kinds, extra):
    if rp.get('outcome') != 'returned':
        return None
    return py_check(cfg, C03.init_env_from(cfg, extra), rp['env'], rp['exec_counts'])[0]


def confirm2(cfg, rp, kinds, extra):
    if rp.get('outcome') != 'returned':
        return None
    return py_check(cfg, C03.init_env_from(cfg, extra), rp['env'], rp['exec_counts'])[1]


CONFIRM = {Q1: confirm1, Q2: confirm2}


def prop(an, prod):
    cfg = prod.cfg

    def q2(u):
        """needless re-execution: compares the state at step 0 with the final state"""
        s0, sK = u.state[0], u.state[u.K]
        bad = []
        for i in range(cfg.n):
            td = trans_deps(cfg, i)
            pre = z3.And(s0[f'p{i}'], *[s0[f'p{j}'] for j in td], *[sK[f'x{j}'] == 0 for j in td])
            same = z3.And(sK[f'x{i}'] == 0, sK[f'p{i}'], sK[f'h{i}_status'], sK[f'v{i}_status'] == props.DONE,
                          sK[f'h{i}_result'], sK[f'v{i}_result'] == s0[f'v{i}_result'],
                          sK[f'h{i}_start_clock'], sK[f'v{i}_start_clock'] == s0[f'v{i}_start_clock'],
                          sK[f'h{i}_end_clock'], sK[f'v{i}_end_clock'] == s0[f'v{i}_end_clock'])
            bad.append(z3.And(pre, z3.Not(same)))
        return z3.And(ordered(cfg, s0), u.at(u.K, finished(prod)), z3.Or(*bad))
    return {'init': init, 'model_extra': C03.model_extra(cfg), 'replay_kwargs': C03.replay_kwargs_for(cfg),
            'queries': [(Q1, lambda u: u.at(u.K, z3.And(finished(prod), stale(prod))), confirm1),
                        (Q2, q2, confirm2)]}


def _job(n, hard, soft, w, tier, seed=0):
    # 3-task configurations keep the clock-consistency assumption for both clauses (without it the unsat proof of n3w1-h21-s02 alone
    # takes more than 10 minutes: measured); an added edge between two old tasks needs two tasks only
    global RELAXED
    RELAXED = n <= 2
    return run_job(Config(n, hard, soft, w), prop, tier, seed)


def jobs(tier):
    out = sched.standard_jobs(tier, _job, light=('n2w2-h10-s_', 'n3w1-h20-s21', 'n3w1-h10-s21'), no_w2=True)
    # the standard graphs only have edges from a task to a task created BEFORE it; here a task soft-depends on one created later
    # (t0 -soft-> t2 -hard-> t1), so that node order and dependency order disagree
    for hard, soft in ([(2, 1)], [(0, 2)]), ([(1, 2)], [(0, 1)]):
        if tier == 'quick' and hard != [(2, 1)]:
            continue
        out.append((sched.cfg_name(Config(3, hard, soft, 1)), _job, dict(n=3, hard=hard, soft=soft, w=1, tier=tier)))
    return out


def replay(rp):
    import sys
    mod = sys.modules[__name__]
    for j in jobs('thorough') + jobs('quick'):
        if j[0] == rp['job']:
            p = j[2]
            mod.replay_kwargs = C03.replay_kwargs_for(Config(p['n'], p['hard'], p['soft'], p['w']))
    return sched.generic_replay(mod, rp)
