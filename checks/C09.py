"""C09 -- slicing a dataset keeps exactly the selected cells together with their bin edges.

Three families of jobs, all on the real code (engine E1 symrun):

 A  index arithmetic, fully symbolic: real ``Dataset._get_bins_items`` / ``_get_bins_slice`` with
    *unbounded* symbolic integer start/stop (or None); the bins are probe sequences that record the
    slice they are indexed with.  z3 (LIA) decides, for every start/stop, that the bins slice selects
    exactly the edges/centres of the retained cells.
 B  end to end: real ``Dataset.__getitem__`` on arrays of distinct symbolic cells; start/stop are
    symbolic ints of a small range that numpy's indexing concretises (one path per value the solver
    finds feasible); cells, bins content, well-formedness, original unchanged.
 C  squeeze.
"""
from collections import OrderedDict
import numpy as np
from engine.runner import run_sym, replay_sym, JobResult
from engine.symrun.core import SInt, SBool, sint_ite, And, Or, Not
from engine.symrun.arrays import sym_real_array, SymArray, plain
from engine.symrun import oracle as O
from engine.symrun.oracle import cells

PID = 'C09'
LEVEL = 'other'
TARGETS = ['valjean.eponine.dataset:Dataset._get_bins_slice', 'valjean.eponine.dataset:Dataset._get_bins_items',
           'valjean.eponine.dataset:Dataset.__getitem__', 'valjean.eponine.dataset:Dataset.squeeze',
           'valjean.eponine.dataset:Dataset.__init__']
BOUNDS = {
    'quick': {'A': 'start, stop: any integer or None (unbounded, symbolic); cells per dimension n in 1..5; rank 1-2; edges/centres',
              'B': 'rank 1: n in 1..4, start/stop in [-6,6] or None; rank 2: shape (2,3), start/stop in [-4,4] or None per axis '
                   '(axes varied one at a time, the other axis takes a solver-chosen slice of 4 kinds)',
              'C': 'shapes with dimensions in {1,2}, rank <= 3, edges/centres/no bins'},
    'thorough': {'A': 'as quick, n in 1..8, rank 1-3',
                 'B': 'rank 1: n in 1..5, start/stop in [-7,7] or None; rank 2: shapes (2,3),(1,2),(3,3) all pairs of slices '
                      'with start/stop in [-4,4] or None; rank 3 (2,1,2) and rank 4 (2,1,2,2): start/stop in [-3,3] or None on one axis at a time',
                 'C': 'shapes with dimensions in {1,2,3}, rank <= 4'},
}
ASSUMPTIONS = ['unit step only (step None); selections that retain no cell: only emptiness of the value is checked',
               'bins probes (A) are sequences with a concrete length that record the slice used on them',
               'B: numpy indexing needs concrete indices: symbolic start/stop are concretised by forking over every feasible value (bounded-exhaustive in the stated range, the solver decides feasibility and the cell/edge equalities)']
OUTSIDE = ['steps other than 1', 'rank > 4', 'integer (non-slice) indices: rejected by the real code with TypeError']
EXPLANATION = ('bounded symbolic execution (symrun+z3) of the real slicing code: LIA queries over unbounded start/stop for the '
               'bin-index arithmetic, forked concretisation for numpy indexing end to end')


# ----------------------------------------------------------------------------- oracle
def norm_slice(start, stop, n):
    """Python's normalisation of slice(start, stop, None) on a sequence of length n -> (lo, hi), hi>=lo.
    Works on ints and SInt (no forking)."""
    def clamp(x, default):
        if x is None:
            return default
        if isinstance(x, SInt):
            neg = x < 0
            shifted = x + n
            a = sint_ite((shifted < 0).t, 0, shifted)
            b = sint_ite((x > n).t, n, x)
            return sint_ite(neg.t, a, b)
        if x < 0:
            return max(x + n, 0)
        return min(x, n)
    lo = clamp(start, 0)
    hi = clamp(stop, n)
    if isinstance(lo, SInt) or isinstance(hi, SInt):
        lo_s = lo if isinstance(lo, SInt) else SInt(lo)
        hi = sint_ite((lo_s > hi).t if isinstance(lo_s > hi, SBool) else (lo_s > hi), lo_s, hi)
        return lo, hi
    return lo, max(lo, hi)


def _selftest_norm():
    for n in range(0, 6):
        for start in [None] + list(range(-8, 9)):
            for stop in [None] + list(range(-8, 9)):
                lo, hi = norm_slice(start, stop, n)
                a, b, _ = slice(start, stop).indices(n)
                assert (lo, max(lo, hi)) == (a, max(a, b)), (n, start, stop, lo, hi, a, b)


class BinProbe:
    """stand-in for a bins array: concrete length, records how it is sliced"""
    def __init__(self, n):
        self.n = n
        self.used = None

    def __len__(self):
        return self.n

    def __getitem__(self, idx):
        self.used = idx
        return ('sliced', self, idx)


def _sym_bound(ex, name, lo=None, hi=None):
    """start/stop: None or an integer"""
    if ex.flag(name + '-is-none'):
        return None
    return ex.int(name, lo, hi)


# ----------------------------------------------------------------------------- A
def make_harness_A(ns, kinds):
    rank = len(ns)

    def harness(ex):
        from valjean.eponine.dataset import Dataset
        val = np.zeros(ns)
        bins = OrderedDict()
        for ax, (n, kind) in enumerate(zip(ns, kinds)):
            bins[f'k{ax}'] = BinProbe(n + 1 if kind == 'e' else n)
        ds = Dataset(val, val.copy(), bins=bins)
        idx = tuple(slice(_sym_bound(ex, f'start{ax}'), _sym_bound(ex, f'stop{ax}')) for ax in range(rank))
        index = idx[0] if rank == 1 and ex.flag('bare-slice') else idx
        nb = ds._get_bins_items(index)
        ex.check(list(nb) == list(bins), 'A:bins-keys-kept')
        conds, nonempties = [], []
        for ax, (n, kind) in enumerate(zip(ns, kinds)):
            got = nb[f'k{ax}']
            ok = isinstance(got, tuple) and got[0] == 'sliced' and got[1] is bins[f'k{ax}'] and \
                isinstance(got[2], slice) and got[2].step is None
            ex.check(ok, 'A:bins-sliced-with-a-unit-step-slice')
            if not ok:
                return
            lo, hi = norm_slice(idx[ax].start, idx[ax].stop, n)
            m = n + 1 if kind == 'e' else n
            blo, bhi = norm_slice(got[2].start, got[2].stop, m)
            nonempty = hi > lo
            want_hi = hi + 1 if kind == 'e' else hi
            nonempties.append(nonempty)
            conds.append(O.band(blo == lo, bhi == want_hi))
        # only claimed when the selection retains at least one cell (non-empty along every axis)
        ex.check(O.implies(O.band(*nonempties), O.band(*conds)),
                 'A:bins-slice-selects-the-edges-of-the-retained-cells')
    return harness


def _jobA(ns, kinds, timeout_ms, seed=0):
    _selftest_norm()
    return run_sym(f'A-{ns}-{kinds}', make_harness_A(ns, kinds), timeout_ms=timeout_ms, seed=seed,
                   require_checks=['A:bins-slice-selects-the-edges-of-the-retained-cells'])


# ----------------------------------------------------------------------------- B
SLICE_KINDS = [slice(None), slice(1, None), slice(None, -1), slice(-1, None)]


def make_harness_B(shape, kinds, rng, vary):
    """vary: tuple of axes whose slice is symbolic; other axes get one of SLICE_KINDS (forked)"""
    rank = len(shape)

    def harness(ex):
        from valjean.eponine.dataset import Dataset
        v = sym_real_array(ex, 'v', shape)
        e = sym_real_array(ex, 'e', shape, nonneg=True)
        bins = OrderedDict()
        for ax, (n, kind) in enumerate(zip(shape, kinds)):
            bins[f'k{ax}'] = sym_real_array(ex, f'b{ax}', (n + 1 if kind == 'e' else n,))
        ds = Dataset(v, e, bins=bins, name='nm', what='wh')
        v0, e0 = list(cells(v)), list(cells(e))
        b0 = {k: (b, list(cells(b))) for k, b in bins.items()}
        idx = []
        for ax in range(rank):
            if ax in vary:
                idx.append(slice(_sym_bound(ex, f'start{ax}', -rng, rng), _sym_bound(ex, f'stop{ax}', -rng, rng)))
            else:
                idx.append(SLICE_KINDS[ex.choice(len(SLICE_KINDS), f'kind{ax}')])
        index = idx[0] if rank == 1 and ex.flag('bare-slice') else tuple(idx)
        res = ds[index]
        # concrete view of what was asked (the real code concretised start/stop while indexing)
        cidx = tuple(slice(None if s.start is None else int(s.start), None if s.stop is None else int(s.stop))
                     for s in idx)
        ex.note('index', [(s.start, s.stop) for s in cidx])
        ok = isinstance(res, Dataset)
        ex.check(ok, 'B:result-is-dataset')
        if not ok:
            return
        ev = plain(v)[cidx]
        ee = plain(e)[cidx]
        ok = res.value.shape == ev.shape and res.error.shape == ev.shape
        ex.check(ok, 'B:shape')
        if not ok:
            return
        ex.check(all(a is b for a, b in zip(cells(res.value), cells(ev))) and
                 all(a is b for a, b in zip(cells(res.error), cells(ee))), 'B:cells-are-the-selected-cells')
        ex.check(res.name == 'nm' and res.what == 'wh', 'B:name-what-kept')
        if ev.size == 0:
            ex.check(res.value.size == 0, 'B:empty-selection-is-empty')
        else:
            ok = list(res.bins) == list(bins)
            ex.check(ok, 'B:bins-keys')
            if ok:
                good = True
                for ax, (n, kind) in enumerate(zip(shape, kinds)):
                    lo, hi, _ = cidx[ax].indices(n)
                    want = b0[f'k{ax}'][1][lo:hi + 1] if kind == 'e' else b0[f'k{ax}'][1][lo:hi]
                    got = list(cells(res.bins[f'k{ax}']))
                    if len(got) != len(want) or not all(a is b for a, b in zip(got, want)):
                        good = False
                ex.check(good, 'B:bins-delimit-the-retained-cells')
        # original unchanged
        same = ds.value is v and ds.error is e and list(ds.bins) == list(bins) and \
            all(a is b for a, b in zip(cells(ds.value), v0)) and all(a is b for a, b in zip(cells(ds.error), e0)) and \
            all(ds.bins[k] is b0[k][0] and all(a is b for a, b in zip(cells(ds.bins[k]), b0[k][1])) for k in bins) and \
            ds.value.shape == tuple(shape)
        ex.check(same, 'B:original-unchanged')
    return harness


def _cells_is(a, b):
    return a is b


def _jobB(shape, kinds, rng, vary, timeout_ms, seed=0):
    return run_sym(f'B-{shape}-{kinds}-r{rng}-v{vary}', make_harness_B(shape, kinds, rng, vary),
                   timeout_ms=timeout_ms, seed=seed, require_checks=['B:cells-are-the-selected-cells'])


# ----------------------------------------------------------------------------- C squeeze
def make_harness_C(shape, kinds):
    def harness(ex):
        from valjean.eponine.dataset import Dataset
        v = sym_real_array(ex, 'v', shape)
        e = sym_real_array(ex, 'e', shape, nonneg=True)
        bins = None
        if kinds is not None:
            bins = OrderedDict()
            for ax, (n, kind) in enumerate(zip(shape, kinds)):
                bins[f'k{ax}'] = sym_real_array(ex, f'b{ax}', (n + 1 if kind == 'e' else n,))
        ds = Dataset(v, e, bins=bins, name='nm', what='wh')
        v0, e0 = list(cells(v)), list(cells(e))
        b0 = {k: (b, list(cells(b))) for k, b in ds.bins.items()}
        res = ds.squeeze()
        ok = isinstance(res, Dataset)
        ex.check(ok, 'C:result-is-dataset')
        if not ok:
            return
        eshape = tuple(n for n in shape if n != 1)
        ok = res.value.shape == eshape and res.error.shape == eshape
        ex.check(ok, 'C:shape-without-length-one-dimensions')
        if not ok:
            return
        ex.check(all(a is b for a, b in zip(cells(res.value), v0)) and
                 all(a is b for a, b in zip(cells(res.error), e0)), 'C:cells-kept-in-order')
        keep = [f'k{ax}' for ax, n in enumerate(shape) if n != 1] if kinds is not None else []
        ok = list(res.bins) == keep
        ex.check(ok, 'C:bins-of-kept-dimensions-only')
        if ok:
            ex.check(all(len(cells(res.bins[k])) == len(b0[k][1]) and
                         all(a is b for a, b in zip(cells(res.bins[k]), b0[k][1])) for k in keep),
                     'C:bins-content-kept')
        ex.check(res.name == 'nm' and res.what == 'wh', 'C:name-what-kept')
        same = ds.value is v and ds.error is e and ds.value.shape == tuple(shape) and \
            list(ds.bins) == list(b0) and \
            all(a is b for a, b in zip(cells(ds.value), v0)) and all(a is b for a, b in zip(cells(ds.error), e0)) and \
            all(ds.bins[k] is b0[k][0] and all(a is b for a, b in zip(cells(ds.bins[k]), b0[k][1])) for k in b0)
        ex.check(same, 'C:original-unchanged')
    return harness


def _jobC(shape, kinds, timeout_ms, seed=0):
    return run_sym(f'C-{shape}-{kinds}', make_harness_C(shape, kinds), timeout_ms=timeout_ms, seed=seed,
                   require_checks=['C:original-unchanged'])


# ----------------------------------------------------------------------------- job table
def _kinds_for(rank):
    import itertools
    return [''.join(k) for k in itertools.product('ec', repeat=rank)]


def jobs(tier):
    import itertools
    out = []
    t = 20000 if tier == 'quick' else 120000
    nmax = 5 if tier == 'quick' else 8
    for n in range(1, nmax + 1):
        for k in 'ec':
            out.append((f'A-({n},)-{k}', _jobA, dict(ns=(n,), kinds=k, timeout_ms=t)))
    for ns in ([(2, 3)] if tier == 'quick' else [(2, 3), (1, 4), (5, 1)]):
        for k in _kinds_for(2):
            out.append((f'A-{ns}-{k}', _jobA, dict(ns=ns, kinds=k, timeout_ms=t)))
    if tier == 'thorough':
        out.append(('A-(2, 1, 3)-ece', _jobA, dict(ns=(2, 1, 3), kinds='ece', timeout_ms=t)))
    # B
    if tier == 'quick':
        for n in (1, 2, 3, 4):
            for k in 'ec':
                out.append((f'B-({n},)-{k}', _jobB, dict(shape=(n,), kinds=k, rng=6, vary=(0,), timeout_ms=t)))
        for k in ('ee', 'ec'):
            for ax in (0, 1):
                out.append((f'B-(2, 3)-{k}-v{ax}', _jobB, dict(shape=(2, 3), kinds=k, rng=4, vary=(ax,), timeout_ms=t)))
    else:
        for n in (1, 2, 3, 4, 5):
            for k in 'ec':
                out.append((f'B-({n},)-{k}', _jobB, dict(shape=(n,), kinds=k, rng=7, vary=(0,), timeout_ms=t)))
        for shape in ((2, 3), (1, 2), (3, 3)):
            for k in _kinds_for(2):
                out.append((f'B-{shape}-{k}-v01', _jobB, dict(shape=shape, kinds=k, rng=4, vary=(0, 1), timeout_ms=t)))
        for shape, ks in (((2, 1, 2), ('eee', 'cec')), ((2, 1, 2, 2), ('eeee', 'ecec'))):
            for k in ks:
                for ax in range(len(shape)):
                    out.append((f'B-{shape}-{k}-v{ax}', _jobB, dict(shape=shape, kinds=k, rng=3, vary=(ax,), timeout_ms=t)))
    # C
    dims = (1, 2) if tier == 'quick' else (1, 2, 3)
    maxrank = 3 if tier == 'quick' else 4
    for rank in range(1, maxrank + 1):
        for shape in itertools.product(dims, repeat=rank):
            if 1 not in shape and rank > 1 and tier == 'quick':
                continue
            if tier == 'thorough' and rank == 4 and (3 in shape):
                continue
            for k in ('e' * rank, 'c' * rank, ('ec' * rank)[:rank], None):
                out.append((f'C-{shape}-{k}', _jobC, dict(shape=shape, kinds=k, timeout_ms=t)))
    # de-duplicate names
    seen, res = set(), []
    for j in out:
        if j[0] not in seen:
            seen.add(j[0])
            res.append(j)
    return res


def replay(rp):
    for j in jobs('thorough') + jobs('quick'):
        if rp['job'] in (j[0], _name_of(j)):
            p = j[2]
            if j[1] is _jobA:
                h = make_harness_A(p['ns'], p['kinds'])
            elif j[1] is _jobB:
                h = make_harness_B(p['shape'], p['kinds'], p['rng'], p['vary'])
            else:
                h = make_harness_C(p['shape'], p['kinds'])
            return replay_sym(h, rp['inputs'])
    raise KeyError(rp['job'])


def _name_of(j):
    p = j[2]
    if j[1] is _jobA:
        return f"A-{p['ns']}-{p['kinds']}"
    if j[1] is _jobB:
        return f"B-{p['shape']}-{p['kinds']}-r{p['rng']}-v{p['vary']}"
    return f"C-{p['shape']}-{p['kinds']}"
