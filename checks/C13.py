"""C13 -- looking at a test result never changes its verdict or its inputs.

Engine E1 (symrun): result kind, failing pattern, verbosities and a SEQUENCE of read-only operations
are solver-chosen; after each operation a deep structural snapshot of result / test / datasets
(dictionary key sets included, arrays byte for byte, plus the observable outputs bool()/oracles()/
counts) is compared with the one taken before."""
import copy
import pickle
import numpy as np
from engine.runner import run_sym, replay_sym
from checks.javert_common import build_result, full_snapshot, snap, KINDS

PID = 'C13'
LEVEL = 'other'
TARGETS = ['valjean.gavroche.diagnostics.stats:classification_counts', 'valjean.javert.table_repr:repr_testresultequal',
           'valjean.javert.table_repr:repr_testresultapproxequal', 'valjean.javert.table_repr:repr_testresultstudent',
           'valjean.javert.table_repr:repr_student_intermediate', 'valjean.javert.table_repr:repr_testresultbonferroni',
           'valjean.javert.table_repr:repr_testresultholmbonferroni', 'valjean.javert.table_repr:repr_testresultstats',
           'valjean.javert.table_repr:repr_testresultstatstestsbylabels', 'valjean.javert.table_repr:repr_testresultmetadata',
           'valjean.javert.plot_repr:repr_datasets_values', 'valjean.javert.plot_repr:repr_testresultstudent',
           'valjean.javert.representation:Representation.__call__', 'valjean.javert.representation:FullRepresenter.__call__',
           'valjean.javert.rst:Rst.format_result', 'valjean.fingerprint:fingerprint',
           'valjean.gavroche.stat_tests.student:TestResultStudent.oracles', 'valjean.gavroche.test:TestEqual.evaluate']
OPS = ['bool', 'oracles', 'counts', 'table', 'fulltable', 'plot', 'full', 'rst', 'fingerprint', 'deepcopy', 'pickle']
BOUNDS = {'quick': {'kinds': KINDS + ['external (user-made templates with units)'], 'datasets': '1-d 3 bins (1 or 2 compared datasets, named or anonymous); 2-d (2,2) for Student',
                    'failing pattern': 'every subset of bins (solver-chosen)', 'operations': 'sequences of 2 out of ' + ', '.join(OPS),
                    'verbosity': 'all 6 levels'},
          'thorough': {'kinds': KINDS, 'datasets': 'as quick + scalar and 2-d with 2 compared datasets (single operations for the latter)',
                       'operations': 'sequences of 2 at all 6 verbosity levels; sequences of 3 at the lowest / highest verbosity (1-d, one dataset)'}}
ASSUMPTIONS = ['cell values are concrete distinct numbers, optionally (solver-chosen, 1-d single-dataset jobs) NaN in the first failing bin and / or big-endian arrays; the failing pattern, result kind, verbosities and operation sequence are solver-chosen',
               'plot representation = plot templates only (no matplotlib rendering)',
               'pickle / deepcopy act on concrete values (C boundary)',
               'the baseline snapshot is taken after one call of the cheap observers (bool, oracles, counts), so memoisation attributes may exist']
OUTSIDE = ['matplotlib rendering of the plots of the statistical results (the drawing job covers one user-made plot template per plot type)', 'sequences longer than the bound', 'user-defined representers']
EXPLANATION = ('bounded symbolic execution (symrun + z3: solver-chosen result kinds, failing patterns and operation sequences) of the real '
               'representation / formatting / counting code; deep snapshot before == after each operation')


def apply_op(ex, res, op, step, few_verbs=False):
    from valjean.javert.verbosity import Verbosity
    from valjean.javert.representation import (Representation, TableRepresenter, FullTableRepresenter, PlotRepresenter,
                                               FullRepresenter)
    from valjean.javert.rst import Rst
    from valjean.fingerprint import fingerprint
    from valjean.gavroche.diagnostics.stats import classification_counts, TestOutcome
    from valjean.cosette.task import TaskStatus
    verbs = list(Verbosity)
    if few_verbs:
        verbs = [verbs[0], verbs[-1]]
    if op == 'bool':
        bool(res)
    elif op == 'oracles':
        if hasattr(res, 'oracles'):
            res.oracles()
    elif op == 'counts':
        cl = getattr(res, 'classify', None)
        if isinstance(cl, dict):
            first = TaskStatus.DONE if type(res).__name__ == 'TestResultStatsTasks' else TestOutcome.SUCCESS
            classification_counts(cl, first)
        elif hasattr(type(res), 'nb_rejected'):
            res.nb_rejected
    elif op in ('table', 'fulltable', 'plot', 'full'):
        v = verbs[ex.choice(len(verbs), f'verb{step}')]
        rep = {'table': TableRepresenter, 'fulltable': FullTableRepresenter, 'plot': PlotRepresenter, 'full': FullRepresenter}[op]()
        Representation(rep, verbosity=v)(res)
    elif op == 'rst':
        v = verbs[ex.choice(len(verbs), f'verb{step}')]
        # external (user-made) results are represented by the full representer only
        rep = FullRepresenter() if type(res).__name__ == 'TestResultExternal' else FullTableRepresenter()
        Rst(Representation(rep, verbosity=v)).format_result(res)
    elif op == 'fingerprint':
        fingerprint(res.test)
    elif op == 'deepcopy':
        copy.deepcopy(res)
    elif op == 'pickle':
        try:
            pickle.loads(pickle.dumps(res))
        except (pickle.PicklingError, AttributeError, TypeError):
            pass          # locally defined stub classes are not picklable: not the subject


def make_harness(kind, shape, nds, named, nops, few_verbs=False):
    def harness(ex):
        res, info = build_result(ex, kind, shape, nds, named, with_nan=(shape == '1d' and nds == 1))
        # determinism / repeatability of evaluation
        if hasattr(res.test, 'evaluate') and kind not in ('failed', 'stats_tests', 'stats_bylabels'):
            again = res.test.evaluate()
            ex.check(full_snapshot(again) == full_snapshot(res), 'evaluating-twice-gives-identical-results')
        ex.check(info.get('evaluation_left_the_observed_results_unchanged', True),
                 'evaluating-a-diagnostic-leaves-the-observed-results-unchanged')
        base = full_snapshot(res)
        ex.check(bool(res) == info['expected_verdict'], 'verdict-matches-the-failing-pattern')
        for step in range(nops):
            op = OPS[ex.choice(len(OPS), f'op{step}')]
            ex.note(f'op{step}', op)
            try:
                apply_op(ex, res, op, step, few_verbs)
            except Exception as e:      # noqa  -- a representer that crashes is C12's business
                ex.note(f'op{step}-raised', type(e).__name__)
            ex.check(full_snapshot(res) == base, f'{op}:leaves-verdict-statistics-and-inputs-unchanged')
    return harness


HISTORY_PAIRS = [(1e-5, 4e-5), (4e-5, 1e-5), (0.01, 0.01003), (0.05, 0.0500001), (1e-3, 1.4e-3), (0.01, 0.0100000001)]
HISTORY_PAIRS_THOROUGH = HISTORY_PAIRS + [(0.05, 0.0504), (0.0504, 0.05), (1e-9, 3e-9), (0.1, 0.14), (0.3, 0.3000001), (1e-3, 1e-3 * (1 + 2**-30)),
                                          (0.02, 0.0249), (0.5, 0.45), (1e-12, 1e-13)]
WIDE = False


def history_harness(ex):
    """the outcome of an evaluation is a function of the test alone, not of what was evaluated earlier in the process: another test
    with a NEARBY significance level (and the same degrees of freedom) is evaluated and represented first, then the test under
    observation, whose per-bin decisions are compared with the two-sided critical value taken directly from scipy (concrete
    float-level job: 120 bins whose t statistics run from 0.05 to 6 in steps of 0.05)"""
    import scipy.stats as sst
    from valjean.eponine.dataset import Dataset
    from valjean.gavroche.stat_tests.student import TestStudent
    from valjean.gavroche.stat_tests.bonferroni import TestBonferroni, TestHolmBonferroni
    from valjean.javert.representation import Representation, FullTableRepresenter
    from valjean.javert.verbosity import Verbosity
    pairs = HISTORY_PAIRS_THOROUGH if WIDE else HISTORY_PAIRS
    a0, a1 = pairs[ex.choice(len(pairs), 'alpha-pair')]
    ndf = [None, 20, 3][ex.choice(3, 'ndf')]
    tv = np.arange(1, 121) * 0.05
    err = np.full_like(tv, np.sqrt(0.5))

    def student(alpha, name):
        return TestStudent(Dataset(tv.copy(), err.copy(), name='ds1'), Dataset(np.zeros_like(tv), err.copy(), name='ds2'),
                           name=name, alpha=alpha, ndf=ndf)
    first = ex.choice(3, 'evaluated-before')
    other = student(a1, 'earlier')
    if first == 1:
        other = TestBonferroni(test=other, name='earlier-bonf', alpha=a1)
    elif first == 2:
        other = TestHolmBonferroni(test=other, name='earlier-holm', alpha=a1)
    Representation(FullTableRepresenter(), verbosity=Verbosity.FULL_DETAILS)(other.evaluate())
    res = student(a0, 'observed').evaluate()
    thr = abs(sst.norm.ppf(a0 / 2)) if ndf is None else abs(sst.t.ppf(a0 / 2, ndf))
    clear = np.abs(tv - thr) > 1e-6
    got = np.asarray(res.oracles()).reshape(-1)
    ex.check(bool(np.all(got[clear] == (tv < thr)[clear])), 'evaluation-does-not-depend-on-what-was-evaluated-before')
    ex.check(bool(res) == bool(np.all((tv < thr)[clear])) or not bool(np.all(clear)), 'evaluation-does-not-depend-on-what-was-evaluated-before')
    again = student(a0, 'observed').evaluate()
    ex.check(full_snapshot(again) == full_snapshot(res), 'evaluating-twice-gives-identical-results')


def draw_harness(ex):
    """DRAWING the plots of a result with matplotlib (what the report writer does) leaves the live templates -- for a user-made
    result: the data of the test itself -- unchanged.  One plot template per plot type ('1D', 'bar', 'barstack', 'pie', '2D'), two or
    three series each, integer or float values (solver-chosen), drawn once or twice, after a representation or not"""
    import matplotlib
    matplotlib.use('Agg')
    from matplotlib import pyplot as plt
    from valjean.javert.test_external import TestExternal
    from valjean.javert.templates import PlotTemplate, SubPlotElements, CurveElements, TextTemplate
    from valjean.javert.representation import Representation, FullRepresenter
    from valjean.javert.verbosity import Verbosity
    from valjean.javert.mpl import MplPlot
    ptype = ['1D', 'bar', 'barstack', 'pie', '2D'][ex.choice(5, 'plot-type')]
    ncurves = 1 if ptype in ('pie', '2D') else 2 + ex.choice(2, 'third-series')
    dtype = [float, int][ex.choice(2, 'integer-values')]
    if ptype == '2D':
        curves = [CurveElements(values=np.array([[1, 3], [2, 0]], dtype=dtype), bins=[np.array([0., 1., 2.]), np.array([0., 1., 2.])], legend='c0')]
        axn = ('x', 'y', 'z')
    else:
        cats = [np.array(['spam', 'egg', 'bacon', 'ham'])] if ptype != '1D' else [np.array([0., 1., 2., 3., 4.])]
        base = [[1, 3, 2, 0], [2, 3, 4, 3], [2, 3, 4, 3]]
        curves = [CurveElements(values=np.array(base[i], dtype=dtype), bins=[b.copy() for b in cats], legend=f'c{i}') for i in range(ncurves)]
        axn = ('x', 'y')
    plot = PlotTemplate(subplots=[SubPlotElements(curves=curves, axnames=axn, ptype=ptype)])
    res = TestExternal(TextTemplate('some text'), plot, name='t-draw', success=True).evaluate()
    base_snap = full_snapshot(res)
    raw = [(c.values.dtype.str, c.values.tobytes(), tuple(b.tobytes() for b in c.bins)) for c in curves]
    if ex.choice(2, 'represented-first'):
        Representation(FullRepresenter(), verbosity=Verbosity.FULL_DETAILS)(res)
    for _ in range(1 + ex.choice(2, 'drawn-twice')):
        try:
            fig, _axs = MplPlot(plot).draw()
            plt.close(fig)
        except Exception as e:      # noqa -- a plot that cannot be drawn is not the subject (C20 covers the figures of a report)
            ex.note('draw-raised', type(e).__name__)
            plt.close('all')
    ex.check(full_snapshot(res) == base_snap and
             raw == [(c.values.dtype.str, c.values.tobytes(), tuple(b.tobytes() for b in c.bins)) for c in curves],
             'draw:leaves-verdict-statistics-and-inputs-unchanged')


def _job_draw(timeout_ms, seed=0):
    return run_sym('x', draw_harness, timeout_ms=timeout_ms, seed=seed, require_checks=['draw:leaves-verdict-statistics-and-inputs-unchanged'])


def _job_history(timeout_ms, seed=0, wide=False):
    global WIDE
    WIDE = wide
    return run_sym('x', history_harness, timeout_ms=timeout_ms, seed=seed, require_checks=['evaluation-does-not-depend-on-what-was-evaluated-before'])


def _job(kind, shape, nds, named, nops, timeout_ms, seed=0, few_verbs=False):
    return run_sym('x', make_harness(kind, shape, nds, named, nops, few_verbs), timeout_ms=timeout_ms, seed=seed, max_paths=3000000)


def jobs(tier):
    out = []
    nops = 2
    for kind in KINDS + ['external']:
        if kind in ('equal', 'approx', 'student', 'bonferroni', 'holm'):
            combos = [('1d', 1, False), ('1d', 2, True)]
            if kind == 'student':
                combos.append(('2d', 1, True))
            if tier == 'thorough':
                combos += [('scalar', 1, True), ('2d', 2, False)]      # ('2d', 2): one operation only, see below
        else:
            combos = [('1d', 1, True)]
        for shape, nds, named in combos:
            n_ops = nops if not ((tier == 'quick' and nds == 2) or (shape == '2d' and nds == 2)) else 1
            out.append((f'{kind}-{shape}-n{nds}-{"named" if named else "anon"}-ops{n_ops}', _job,
                        dict(kind=kind, shape=shape, nds=nds, named=named, nops=n_ops, timeout_ms=20000)))
        if tier == 'thorough':
            # sequences of three operations, lowest / highest verbosity only
            out.append((f'{kind}-1d-n1-named-ops3-fewverbs', _job,
                        dict(kind=kind, shape='1d', nds=1, named=True, nops=3, timeout_ms=20000, few_verbs=True)))
    out.append(('history-student', _job_history, dict(timeout_ms=20000, wide=(tier == 'thorough'))))
    out.append(('draw-plots', _job_draw, dict(timeout_ms=20000)))
    return out


def replay(rp):
    if rp['job'] == 'draw-plots':
        return replay_sym(draw_harness, rp['inputs'])
    if rp['job'] == 'history-student':
        global WIDE
        WIDE = True          # the thorough pool extends the quick one: indices agree
        return replay_sym(history_harness, rp['inputs'])
    for j in jobs('thorough') + jobs('quick'):
        if j[0] == rp['job']:
            p = j[2]
            return replay_sym(make_harness(p['kind'], p['shape'], p['nds'], p['named'], p['nops'], p.get('few_verbs', False)),
                              rp['inputs'])
    raise KeyError(rp['job'])
