"""C13 -- looking at a test result never changes its verdict or its inputs.

Engine E1 (symrun): result kind, failing pattern, verbosities and a SEQUENCE of read-only operations
are solver-chosen; after each operation a deep structural snapshot of result / test / datasets
(dictionary key sets included, arrays byte for byte, plus the observable outputs bool()/oracles()/
counts) is compared with the one taken before."""
import copy
import pickle
from engine.runner import run_sym, replay_sym
from checks.javert_common import build_result, full_snapshot, snap, KINDS

PID = 'C13'
LEVEL = 'other'
TARGETS = ['valjean.gavroche.diagnostics.stats:classification_counts', 'valjean.javert.table_repr:repr_testresultequal',
           'valjean.javert.table_repr:repr_testresultapproxequal', 'valjean.javert.table_repr:repr_testresultstudent',
           'valjean.javert.table_repr:repr_student_intermediate', 'valjean.javert.table_repr:repr_testresultbonferroni',
           'valjean.javert.table_repr:repr_testresultholmbonferroni', 'valjean.javert.table_repr:repr_testresultstats',
           'valjean.javert.table_repr:repr_testresultstatstestsbylabels', 'valjean.javert.table_repr:repr_testresultmetadata',
           'valjean.javert.plot_repr:repr_datasets_values', 'valjean.javert.plot_repr:repr_testresultstudent',
           'valjean.javert.representation:Representation.__call__', 'valjean.javert.representation:FullRepresenter.__call__',
           'valjean.javert.rst:Rst.format_result', 'valjean.fingerprint:fingerprint',
           'valjean.gavroche.stat_tests.student:TestResultStudent.oracles', 'valjean.gavroche.test:TestEqual.evaluate']
OPS = ['bool', 'oracles', 'counts', 'table', 'fulltable', 'plot', 'full', 'rst', 'fingerprint', 'deepcopy', 'pickle']
BOUNDS = {'quick': {'kinds': KINDS + ['external (user-made templates with units)'], 'datasets': '1-d 3 bins (1 or 2 compared datasets, named or anonymous); 2-d (2,2) for Student',
                    'failing pattern': 'every subset of bins (solver-chosen)', 'operations': 'sequences of 2 out of ' + ', '.join(OPS),
                    'verbosity': 'all 6 levels'},
          'thorough': {'kinds': KINDS, 'datasets': 'as quick + scalar and 2-d with 2 compared datasets (single operations for the latter)',
                       'operations': 'sequences of 2 at all 6 verbosity levels; sequences of 3 at the lowest / highest verbosity (1-d, one dataset)'}}
ASSUMPTIONS = ['cell values are concrete distinct numbers, optionally (solver-chosen, 1-d single-dataset jobs) NaN in the first failing bin and / or big-endian arrays; the failing pattern, result kind, verbosities and operation sequence are solver-chosen',
               'plot representation = plot templates only (no matplotlib rendering)',
               'pickle / deepcopy act on concrete values (C boundary)',
               'the baseline snapshot is taken after one call of the cheap observers (bool, oracles, counts), so memoisation attributes may exist']
OUTSIDE = ['matplotlib rendering', 'sequences longer than the bound', 'user-defined representers']
EXPLANATION = ('bounded symbolic execution (symrun + z3: solver-chosen result kinds, failing patterns and operation sequences) of the real '
               'representation / formatting / counting code; deep snapshot before == after each operation')


def apply_op(ex, res, op, step, few_verbs=False):
    from valjean.javert.verbosity import Verbosity
    from valjean.javert.representation import (Representation, TableRepresenter, FullTableRepresenter, PlotRepresenter,
                                               FullRepresenter)
    from valjean.javert.rst import Rst
    from valjean.fingerprint import fingerprint
    from valjean.gavroche.diagnostics.stats import classification_counts, TestOutcome
    from valjean.cosette.task import TaskStatus
    verbs = list(Verbosity)
    if few_verbs:
        verbs = [verbs[0], verbs[-1]]
    if op == 'bool':
        bool(res)
    elif op == 'oracles':
        if hasattr(res, 'oracles'):
            res.oracles()
    elif op == 'counts':
        cl = getattr(res, 'classify', None)
        if isinstance(cl, dict):
            first = TaskStatus.DONE if type(res).__name__ == 'TestResultStatsTasks' else TestOutcome.SUCCESS
            classification_counts(cl, first)
        elif hasattr(type(res), 'nb_rejected'):
            res.nb_rejected
    elif op in ('table', 'fulltable', 'plot', 'full'):
        v = verbs[ex.choice(len(verbs), f'verb{step}')]
        rep = {'table': TableRepresenter, 'fulltable': FullTableRepresenter, 'plot': PlotRepresenter, 'full': FullRepresenter}[op]()
        Representation(rep, verbosity=v)(res)
    elif op == 'rst':
        v = verbs[ex.choice(len(verbs), f'verb{step}')]
        # external (user-made) results are represented by the full representer only
        rep = FullRepresenter() if type(res).__name__ == 'TestResultExternal' else FullTableRepresenter()
        Rst(Representation(rep, verbosity=v)).format_result(res)
    elif op == 'fingerprint':
        fingerprint(res.test)
    elif op == 'deepcopy':
        copy.deepcopy(res)
    elif op == 'pickle':
        try:
            pickle.loads(pickle.dumps(res))
        except (pickle.PicklingError, AttributeError, TypeError):
            pass          # locally defined stub classes are not picklable: not the subject


def make_harness(kind, shape, nds, named, nops, few_verbs=False):
    def harness(ex):
        res, info = build_result(ex, kind, shape, nds, named, with_nan=(shape == '1d' and nds == 1))
        # determinism / repeatability of evaluation
        if hasattr(res.test, 'evaluate') and kind not in ('failed', 'stats_tests', 'stats_bylabels'):
            again = res.test.evaluate()
            ex.check(full_snapshot(again) == full_snapshot(res), 'evaluating-twice-gives-identical-results')
        ex.check(info.get('evaluation_left_the_observed_results_unchanged', True),
                 'evaluating-a-diagnostic-leaves-the-observed-results-unchanged')
        base = full_snapshot(res)
        ex.check(bool(res) == info['expected_verdict'], 'verdict-matches-the-failing-pattern')
        for step in range(nops):
            op = OPS[ex.choice(len(OPS), f'op{step}')]
            ex.note(f'op{step}', op)
            try:
                apply_op(ex, res, op, step, few_verbs)
            except Exception as e:      # noqa  -- a representer that crashes is C12's business
                ex.note(f'op{step}-raised', type(e).__name__)
            ex.check(full_snapshot(res) == base, f'{op}:leaves-verdict-statistics-and-inputs-unchanged')
    return harness


def _job(kind, shape, nds, named, nops, timeout_ms, seed=0, few_verbs=False):
    return run_sym('x', make_harness(kind, shape, nds, named, nops, few_verbs), timeout_ms=timeout_ms, seed=seed, max_paths=3000000)


def jobs(tier):
    out = []
    nops = 2
    for kind in KINDS + ['external']:
        if kind in ('equal', 'approx', 'student', 'bonferroni', 'holm'):
            combos = [('1d', 1, False), ('1d', 2, True)]
            if kind == 'student':
                combos.append(('2d', 1, True))
            if tier == 'thorough':
                combos += [('scalar', 1, True), ('2d', 2, False)]      # ('2d', 2): one operation only, see below
        else:
            combos = [('1d', 1, True)]
        for shape, nds, named in combos:
            n_ops = nops if not ((tier == 'quick' and nds == 2) or (shape == '2d' and nds == 2)) else 1
            out.append((f'{kind}-{shape}-n{nds}-{"named" if named else "anon"}-ops{n_ops}', _job,
                        dict(kind=kind, shape=shape, nds=nds, named=named, nops=n_ops, timeout_ms=20000)))
        if tier == 'thorough':
            # sequences of three operations, lowest / highest verbosity only
            out.append((f'{kind}-1d-n1-named-ops3-fewverbs', _job,
                        dict(kind=kind, shape='1d', nds=1, named=True, nops=3, timeout_ms=20000, few_verbs=True)))
    return out


def replay(rp):
    for j in jobs('thorough') + jobs('quick'):
        if j[0] == rp['job']:
            p = j[2]
            return replay_sym(make_harness(p['kind'], p['shape'], p['nds'], p['named'], p['nops'], p.get('few_verbs', False)),
                              rp['inputs'])
    raise KeyError(rp['job'])
