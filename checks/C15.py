"""C15 -- generated tasks correspond one-to-one to what was asked for.

Engine E1 (symrun): request HISTORIES against the process-wide caches are solver-chosen sequences
(forked selectors); the real Use / using / RunTaskFactory / close_dependency_graph /
check_unique_task_names run on them; returned tasks are executed on a prepared environment with
tagged callables / a recording subprocess stub.
"""
import os
import shutil
import tempfile
import itertools
from engine.runner import run_sym, replay_sym, known_active, JobResult

PID = 'C15'
LEVEL = 'other'
TARGETS = ['valjean.cosette.use:Use.from_func', 'valjean.cosette.use:Use.__init__', 'valjean.cosette.use:Use.get_task',
           'valjean.cosette.use:Use.map', 'valjean.cosette.use:using', 'valjean.cosette.use:UseRun.__call__',
           'valjean.cosette.run:RunTaskFactory.make', 'valjean.cosette.run:RunTaskFactory.copy',
           'valjean.cosette.run:RunTaskFactory.from_executable', 'valjean.cosette.run:RunTaskFactory.from_task',
           'valjean.cosette.task:close_dependency_graph', 'valjean.cambronne.common:check_unique_task_names', 'valjean.cambronne.common:collect_tasks']
BOUNDS = {'quick': {'use': 'histories of 2 requests: function in {f, another function also named f, h}, injected task in {T1,T2}, key in '
                           "{'result','other'}, positional/keyword, hard/soft; caches start empty",
                    'factory': 'histories of 3 make() calls on one factory (and a copy): extra_args in 2 values, deps/soft_deps in {none, [D]}, name none; the factory itself made without dependencies, with a hard one, with a hard and a soft one',
                    'stacked wrappers': 'a wrapper specialised 2 times (parent: base or an earlier specialisation; task, key, positional/keyword x/y solver-chosen)',
                    'factories differing in default keywords': '2 make() calls on two sibling factories (same executable with v=v1 / v=v2, or two executables of one build task), call-time override none/v1/v2, 2 extra_args; + a wrapper task on each',
                    'closure': 'all hard/soft/none graphs on <= 3 tasks'},
          'thorough': {'use': 'histories of 3 requests', 'stacked wrappers': '3 specialisations', 'factories differing in default keywords': '3 make() calls', 'factory': 'histories of 4 make() calls', 'closure': 'all graphs on <= 4 tasks'}}
ASSUMPTIONS = ['requests are drawn from the finite alphabets listed in the bounds (solver-chosen sequences)',
               'known finding C15-use-cache-key: two Use requests whose generated names coincide (same function NAME and same hard-dependency names) '
               'share one task although they differ in function object, key, keyword, or soft/hard kind -- excluded while listed',
               'known finding C15-factory-cache-key: two make() requests that differ only in deps / soft_deps share one task -- excluded while listed']
OUTSIDE = ['longer histories', 'subprocess_args, user-supplied task names (bypass every comparison by design)']
EXPLANATION = ('bounded symbolic execution (symrun + z3: solver-chosen request histories) of the real task-generation code against its '
               'process-wide caches; identity, dependencies and executed behaviour of the returned tasks compared with the requests')
K_USE = 'C15-use-cache-key'
K_FAC = 'C15-factory-cache-key'


# ----------------------------------------------------------------------------- Use histories
def make_use_harness(n):
    def harness(ex):
        from valjean.cosette.use import Use
        from valjean.cosette.task import Task, TaskStatus
        from valjean.cosette.env import Env

        class Plain(Task):
            def do(self, env, config):
                return {}, TaskStatus.DONE
        T = [Plain('T1'), Plain('T2')]
        calls = []

        def f(*a, **k):
            calls.append(('f', a, k))
            return 'F'

        def g(*a, **k):
            calls.append(('g', a, k))
            return 'G'
        g.__name__ = 'f'            # another function with the same name (e.g. redefined in a loop)

        def h(*a, **k):
            calls.append(('h', a, k))
            return 'H'
        funcs = [f, g, h]
        keys = ['result', 'other']
        saved = dict(Use._CACHE)
        Use._CACHE.clear()
        try:
            reqs, tasks = [], []
            for r in range(n):
                req = (ex.choice(3, f'func{r}'), ex.choice(2, f'task{r}'), ex.choice(2, f'key{r}'),
                       ex.choice(2, f'kwarg{r}'), ex.choice(2, f'soft{r}'))
                fn, tk, ky, kw, soft = req
                use = Use.from_func(func=funcs[fn], task=T[tk], key=keys[ky], kwarg=('x' if kw else None),
                                    deps_type=('soft' if soft else 'hard'))
                tasks.append(use.get_task())
                reqs.append(req)
            ex.note('requests', reqs)
            env = Env({'T1': {'result': 'r1', 'other': 'o1'}, 'T2': {'result': 'r2', 'other': 'o2'}})
            for a, b in itertools.combinations(range(n), 2):
                same_req = reqs[a] == reqs[b]
                same_task = tasks[a] is tasks[b]
                if same_req:
                    ex.check(same_task, 'identical-requests-get-the-same-task')
                elif same_task and known_active(K_USE) and _same_generated_name(reqs[a], reqs[b]):
                    ex.note('known', K_USE)
                else:
                    ex.check(not same_task, 'different-requests-never-share-a-task')
            for r in range(n):
                if any(tasks[r] is tasks[q] and reqs[r] != reqs[q] for q in range(n)):
                    continue            # shared by different requests (reported / known above)
                fn, tk, ky, kw, soft = reqs[r]
                del calls[:]
                upd, st = tasks[r].do(env, None)
                val = env[T[tk].name][keys[ky]]
                want = (funcs[fn].__code__.co_name, () if kw else (val,), {'x': val} if kw else {})
                ex.check(len(calls) == 1 and calls[0] == want and st == TaskStatus.DONE,
                         'task-runs-its-own-function-on-its-own-injected-value')
                deps = {T[tk]} if not soft else set()
                sdeps = {T[tk]} if soft else set()
                ex.check(set(tasks[r].depends_on) == deps and set(tasks[r].soft_depends_on) == sdeps,
                         'task-depends-on-the-injected-task-with-the-requested-kind')
        finally:
            Use._CACHE.clear()
            Use._CACHE.update(saved)
    return harness


def _same_generated_name(r1, r2):
    """name = sorted hard-dependency names + '.' + function name"""
    def nm(r):
        fn, tk, ky, kw, soft = r
        return (('f', 'f', 'h')[fn], None if soft else tk)
    return nm(r1) == nm(r2)


# ----------------------------------------------------------------------------- factory histories
def make_factory_harness(n):
    def harness(ex):
        import valjean.cosette.run as runmod
        from valjean.cosette.task import Task, TaskStatus
        from valjean.cosette.env import Env

        class Plain(Task):
            def do(self, env, config):
                return {}, TaskStatus.DONE
        D, S, B, BS = Plain('D'), Plain('S'), Plain('BASE'), Plain('BASESOFT')
        # dependencies given to the FACTORY: none, hard only, hard and soft (every task made by it, or by a copy of it, carries them)
        base_deps, base_soft = [([], []), ([B], []), ([B], [BS])][ex.choice(3, 'factory-level-dependencies')]
        fac = runmod.RunTaskFactory.from_executable('/bin/exe', default_args=['--opt'], deps=list(base_deps), soft_deps=list(base_soft))
        facs = [fac]
        reqs, tasks = [], []
        for r in range(n):
            which = 0
            if r >= 1 and ex.flag(f'on-copy{r}'):
                facs.append(facs[0].copy())
                which = len(facs) - 1
            req = (which, ex.choice(2, f'extra{r}'), ex.choice(2, f'deps{r}'), ex.choice(2, f'soft{r}'))
            _, xa, dp, sd = req
            t = facs[which].make(extra_args=[['a'], ['b']][xa], deps=[D] if dp else None, soft_deps=[S] if sd else None)
            reqs.append(req)
            tasks.append(t)
        ex.note('requests', reqs)
        calls = []

        def call_stub(cli, **kw):
            calls.append(list(cli))
            return 0

        class _Cfg:
            def __init__(self, root):
                self.root = root

            def query(self, s, k):
                return self.root
        saved = runmod.call
        runmod.call = call_stub
        tmp = tempfile.mkdtemp(prefix='verif_c15_')
        try:
            for a, b in itertools.combinations(range(n), 2):
                same_fac = reqs[a][0] == reqs[b][0]
                same_req = reqs[a] == reqs[b]
                same_task = tasks[a] is tasks[b]
                if same_req:
                    ex.check(same_task, 'factory:identical-requests-get-the-same-task')
                elif same_task and same_fac and reqs[a][1] == reqs[b][1] and known_active(K_FAC):
                    ex.note('known', K_FAC)
                else:
                    ex.check(not same_task, 'factory:different-requests-never-share-a-task')
            for r in range(n):
                if any(tasks[r] is tasks[q] and reqs[r] != reqs[q] for q in range(n)):
                    continue
                _, xa, dp, sd = reqs[r]
                ex.check(set(tasks[r].depends_on) == set(base_deps) | ({D} if dp else set()) and
                         set(tasks[r].soft_depends_on) == set(base_soft) | ({S} if sd else set()),
                         'factory:task-has-exactly-the-requested-dependencies')
                del calls[:]
                upd, st = tasks[r].do(Env(), _Cfg(tmp))
                ex.check(calls == [['/bin/exe', '--opt'] + [['a'], ['b']][xa]] and st == TaskStatus.DONE,
                         'factory:task-runs-the-requested-command-line')
            for fc in facs:
                ex.check(list(fc.deps) == list(base_deps) and list(fc.soft_deps) == list(base_soft), 'factory:make-does-not-change-the-factory')
        finally:
            runmod.call = saved
            shutil.rmtree(tmp, ignore_errors=True)
    return harness


# ----------------------------------------------------------------------------- stacked wrappers
def make_stacked_harness(n):
    """a wrapper (Use object) is specialised n times by wrapping it again: the base wrapper and every earlier
    specialisation keep their own injection tables (from_func extends COPIES)"""
    def harness(ex):
        from valjean.cosette.use import Use
        from valjean.cosette.task import Task, TaskStatus
        from valjean.cosette.env import Env

        class Plain(Task):
            def do(self, env, config):
                return {}, TaskStatus.DONE
        T = [Plain('T0'), Plain('T1'), Plain('T2')]
        calls = []

        def f(*a, **k):
            calls.append((a, k))
            return 'F'
        keys = ['result', 'other']
        kws = [None, 'x', 'y']
        env = Env({t.name: {'result': f'r{i}', 'other': f'o{i}'} for i, t in enumerate(T)})
        saved = dict(Use._CACHE)
        try:
            bkw = kws[ex.choice(3, 'base-kwarg')]
            base = Use.from_func(func=f, task=T[0], key='result', kwarg=bkw)
            wrappers = [(base, [] if bkw else ['r0'], {bkw: 'r0'} if bkw else {}, {T[0]})]
            for r in range(n):
                parent = wrappers[ex.choice(len(wrappers), f'parent{r}')]
                tk = 1 + ex.choice(2, f'task{r}')
                ky = ex.choice(2, f'key{r}')
                kw = kws[ex.choice(3, f'kwarg{r}')]
                u = Use.from_func(func=parent[0], task=T[tk], key=keys[ky], kwarg=kw)
                val = env[T[tk].name][keys[ky]]
                args = ([] if kw else [val]) + list(parent[1])      # decorator order: the outermost injection comes first
                kwargs = dict(parent[2])
                if kw:
                    kwargs[kw] = val
                wrappers.append((u, args, kwargs, None))
            # now (after every specialisation was made) each wrapper still produces a task that calls f its own way
            good, deps_ok = True, True
            for u, args, kwargs, _ in wrappers:
                Use._CACHE.clear()           # the name-keyed cache is the subject of the other jobs
                t = u.get_task()
                del calls[:]
                upd, st = t.do(env, None)
                if not (len(calls) == 1 and list(calls[0][0]) == args and calls[0][1] == kwargs and st == TaskStatus.DONE):
                    good = False
                want_deps = {tt for tt, _ in list(u.inj_args) + list(u.inj_kwargs.values())}
                if set(t.depends_on) != want_deps:
                    deps_ok = False
            ex.check(good, 'stacked:every-wrapper-calls-the-function-with-its-own-injected-values')
            ex.check(deps_ok, 'stacked:task-depends-on-its-own-injected-tasks')
            ex.check(list(base.inj_args) == ([] if bkw else [(T[0], 'result')]) and
                     dict(base.inj_kwargs) == ({bkw: (T[0], 'result')} if bkw else {}), 'stacked:the-wrapped-wrapper-is-not-modified')
        finally:
            Use._CACHE.clear()
            Use._CACHE.update(saved)
    return harness


# ----------------------------------------------------------------------------- factories that differ in their default keywords
def make_factory_kw_harness(n):
    """two factories of the same executable that differ only in a construction-time keyword, and call-time overrides:
    tasks (and the post-processing tasks wrapped around them) are shared only between requests for the same command line"""
    def harness(ex):
        import valjean.cosette.run as runmod
        from valjean.cosette.use import Use
        from valjean.cosette.task import TaskStatus
        from valjean.cosette.env import Env
        from valjean.cosette.task import Task

        class Plain(Task):
            def do(self, env, config):
                return {}, TaskStatus.DONE
        build = Plain('BUILD')
        if ex.flag('factories-made-from-a-build-task'):
            # two executables of the same build task (different relative paths), same default keyword
            exes = ['/out/bin/tool_v1', '/out/bin/tool_v2']
            facs = [runmod.RunTaskFactory.from_task(build, relative_path='bin/tool_v1', default_args=['--opt', '{v}'], v='v1'),
                    runmod.RunTaskFactory.from_task(build, relative_path='bin/tool_v2', default_args=['--opt', '{v}'], v='v1')]
            defaults = ['v1', 'v1']
        else:
            exes = ['/bin/exe', '/bin/exe']
            facs = [runmod.RunTaskFactory.from_executable('/bin/exe', default_args=['--opt', '{v}'], v='v1'),
                    runmod.RunTaskFactory.from_executable('/bin/exe', default_args=['--opt', '{v}'], v='v2')]
            defaults = ['v1', 'v2']
        reqs, tasks = [], []
        for r in range(n):
            which = ex.choice(2, f'factory{r}')
            callv = [None, 'v1', 'v2'][ex.choice(3, f'call-keyword{r}')]
            xa = ex.choice(2, f'extra{r}')
            kw = {} if callv is None else {'v': callv}
            tasks.append(facs[which].make(extra_args=[['a'], ['b']][xa], **kw))
            reqs.append((which, callv, xa))
        ex.note('requests', reqs)
        eff = [(exes[which], callv or defaults[which], xa) for which, callv, xa in reqs]
        calls = []

        def call_stub(cli, **kw):
            calls.append(list(cli))
            return 0

        class _Cfg:
            def __init__(self, root):
                self.root = root

            def query(self, s, k):
                return self.root

        def post(x):
            return x
        saved = runmod.call
        saved_cache = dict(Use._CACHE)
        Use._CACHE.clear()
        runmod.call = call_stub
        tmp = tempfile.mkdtemp(prefix='verif_c15_')
        try:
            posts = [Use.from_func(func=post, task=t, key='result').get_task() for t in tasks]
            for a, b in itertools.combinations(range(n), 2):
                if reqs[a] == reqs[b]:
                    ex.check(tasks[a] is tasks[b], 'factory-kw:identical-requests-get-the-same-task')
                if eff[a] != eff[b]:
                    ex.check(tasks[a] is not tasks[b], 'factory-kw:different-command-lines-never-share-a-task')
                    # (a wrapper task may be shared with an EQUIVALENT request made on another factory object -- same name, same
                    # command line --, hence names and not identities on the right-hand sides)
                    ex.check(posts[a] is not posts[b] and {t.name for t in posts[a].depends_on} == {tasks[a].name}
                             and {t.name for t in posts[b].depends_on} == {tasks[b].name},
                             'factory-kw:post-processing-of-different-runs-is-never-shared',
                             detail=f'{tasks[a].name} / {tasks[b].name}')
            for r in range(n):
                del calls[:]
                upd, st = tasks[r].do(Env({'BUILD': {'output_dir': '/out'}}), _Cfg(tmp))
                ex.check(calls == [[eff[r][0], '--opt', eff[r][1]] + [['a'], ['b']][eff[r][2]]] and st == TaskStatus.DONE,
                         'factory-kw:task-runs-the-requested-command-line', detail=str(calls))
        finally:
            runmod.call = saved
            Use._CACHE.clear()
            Use._CACHE.update(saved_cache)
            shutil.rmtree(tmp, ignore_errors=True)
    return harness


# ----------------------------------------------------------------------------- closure of the dependency graph
def make_closure_harness(n):
    def harness(ex):
        from valjean.cosette.task import Task, TaskStatus, close_dependency_graph
        from valjean.cambronne.common import check_unique_task_names

        class Plain(Task):
            def do(self, env, config):
                return {}, TaskStatus.DONE
        dup = ex.flag('duplicate-name')
        names = [f't{i}' for i in range(n)]
        if dup and n >= 2:
            names[-1] = names[0]
        ts = [Plain(nm) for nm in names]
        hard, soft = set(), set()
        for i in range(n):
            for j in range(i):
                k = ex.choice(3, f'edge{i}{j}')
                if k == 1:
                    ts[i].depends_on.add(ts[j])
                    hard.add((i, j))
                elif k == 2:
                    ts[i].soft_depends_on.add(ts[j])
                    soft.add((i, j))
        roots = [i for i in range(n) if ex.flag(f'root{i}')]
        got = close_dependency_graph([ts[i] for i in roots])
        reach = set(roots)
        todo = list(roots)
        while todo:
            i = todo.pop()
            for (a, b) in hard | soft:
                if a == i and b not in reach:
                    reach.add(b)
                    todo.append(b)
        ex.check(len(got) == len(reach) and {id(t) for t in got} == {id(ts[i]) for i in reach},
                 'closure:every-transitive-hard-and-soft-dependency-exactly-once')
        want_dup = len({ts[i].name for i in reach}) != len(reach)
        try:
            check_unique_task_names(got)
            raised = False
        except ValueError:
            raised = True
        ex.check(raised == want_dup, 'closure:duplicate-names-of-different-tasks-are-rejected')
        # the same through collect_tasks (what `valjean run` calls), the job() function being a stub that returns the roots
        # (the first root possibly listed twice: the same task OBJECT twice is not a name clash)
        import valjean.cambronne.common as common
        job_tasks = [ts[i] for i in roots]
        if roots and ex.flag('first-root-listed-twice'):
            job_tasks.append(ts[roots[0]])
        saved = common.run_job
        common.run_job = lambda job_file, job_args, job_kwargs: list(job_tasks)
        try:
            try:
                coll = common.collect_tasks('job.py', [], {})
                raised2 = False
            except ValueError:
                coll, raised2 = None, True
        finally:
            common.run_job = saved
        ex.check(raised2 == want_dup, 'collect_tasks:rejects-exactly-the-jobs-with-two-different-tasks-of-the-same-name')
        if coll is not None:
            ex.check(len(coll) == len(reach) and {id(t) for t in coll} == {id(ts[i]) for i in reach},
                     'collect_tasks:every-transitive-hard-and-soft-dependency-exactly-once')
    return harness


HARNESSES = {'use': make_use_harness, 'factory': make_factory_harness, 'closure': make_closure_harness,
             'stacked': make_stacked_harness, 'factorykw': make_factory_kw_harness}


def _job(kind, n, timeout_ms, seed=0):
    h = HARNESSES[kind](n)
    return run_sym('x', h, timeout_ms=timeout_ms, seed=seed, max_paths=3000000)


def _known_job(seed=0):
    r = JobResult('known')
    r.stats = {'paths': 1, 'solver_queries': 0}
    from valjean.cosette.use import Use
    from valjean.cosette.task import Task, TaskStatus
    import valjean.cosette.run as runmod

    class Plain(Task):
        def do(self, env, config):
            return {}, TaskStatus.DONE
    if known_active(K_USE):
        saved = dict(Use._CACHE)
        Use._CACHE.clear()
        try:
            t = Plain('T1')
            a = Use.from_func(func=lambda x: 1, task=t, key='result').get_task()
            b = Use.from_func(func=lambda x: 2, task=t, key='other').get_task()
            if a is b:
                r.known.append((K_USE, "two different lambdas injected with different keys of the same task share one cached task "
                                       f"(generated name {a.name!r}): the second request silently runs the first function"))
            else:
                r.inconclusive.append(f'known finding {K_USE} no longer reproduces: remove it from known_findings.json')
        finally:
            Use._CACHE.clear()
            Use._CACHE.update(saved)
    if known_active(K_FAC):
        fac = runmod.RunTaskFactory.from_executable('/bin/exe')
        d = Plain('D')
        a = fac.make(extra_args=['a'])
        b = fac.make(extra_args=['a'], deps=[d])
        if a is b:
            r.known.append((K_FAC, 'factory.make(extra_args=[a]) then make(extra_args=[a], deps=[D]) returns the first task: the requested '
                                   'dependency on D is silently dropped'))
        else:
            r.inconclusive.append(f'known finding {K_FAC} no longer reproduces: remove it from known_findings.json')
    return r


def jobs(tier):
    t = 20000
    out = [('known-findings', _known_job, {})]
    plan = [('use', 1), ('use', 2), ('stacked', 2), ('factory', 2), ('factory', 3), ('factorykw', 2), ('closure', 2), ('closure', 3)] \
        if tier == 'quick' else \
        [('use', 1), ('use', 2), ('use', 3), ('stacked', 2), ('stacked', 3), ('factory', 2), ('factory', 3), ('factory', 4),
         ('factorykw', 2), ('factorykw', 3), ('closure', 2), ('closure', 3), ('closure', 4)]
    for kind, n in plan:
        out.append((f'{kind}-{n}', _job, dict(kind=kind, n=n, timeout_ms=t)))
    return out


def replay(rp):
    kind, n = rp['job'].split('-')
    h = HARNESSES[kind](int(n))
    return replay_sym(h, rp['inputs'])
