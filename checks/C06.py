"""C06 -- Bonferroni and Holm-Bonferroni flag exactly the bins their definitions reject.

Engine E1 (symrun).  The real TestBonferroni / TestHolmBonferroni (+ result classes) run on
symbolic p-value arrays (reals in [0,1] or NaN) coming from a stub first test, or from the real
TestStudent (law stubs) for the "passes bin by bin => passes both corrections" clause.
numpy.argsort is a stub: the permutation is chosen by the explorer among ALL sorting
permutations (NaN last, ties free), so every tie-breaking numpy could pick is covered.
The Holm oracle does not depend on how the code sorts: it demands that SOME sorting permutation
explains the reported flags and levels.
"""
import itertools
import numpy as np
from engine.runner import run_sym, replay_sym
from engine.symrun.arrays import sym_real_array, SymArray, SymScalar, numpy_facade
from engine.symrun import oracle as O
from engine.symrun.oracle import cells

PID = 'C06'
LEVEL = 'other'
TARGETS = ['valjean.gavroche.stat_tests.bonferroni:TestBonferroni.__init__',
           'valjean.gavroche.stat_tests.bonferroni:TestBonferroni.bonferroni_correction',
           'valjean.gavroche.stat_tests.bonferroni:TestBonferroni.evaluate',
           'valjean.gavroche.stat_tests.bonferroni:TestResultBonferroni.__bool__',
           'valjean.gavroche.stat_tests.bonferroni:TestResultBonferroni.oracles',
           'valjean.gavroche.stat_tests.bonferroni:TestHolmBonferroni.__init__',
           'valjean.gavroche.stat_tests.bonferroni:TestHolmBonferroni.holm_bonferroni_method',
           'valjean.gavroche.stat_tests.bonferroni:TestHolmBonferroni.evaluate',
           'valjean.gavroche.stat_tests.bonferroni:TestResultHolmBonferroni.__bool__',
           'valjean.gavroche.stat_tests.bonferroni:TestResultHolmBonferroni.oracles']
BOUNDS = {
    'quick': {'bins': 'm <= 3 (shapes (1,), (2,), (3,), (1,2))  and (2,2), C- or Fortran-ordered, for Bonferroni and for Holm-Bonferroni separately', 'datasets_compared': '1; 2 for m <= 2', 'history': 'both corrections applied earlier in the process at ANOTHER symbolic level to arrays of the same shape, m = 2 (3)',
              'p-values': 'symbolic reals in [0,1] or NaN (ties, zeros and ones included)', 'alpha': 'symbolic real in (0,1)',
              'student_jobs': 'real TestStudent as first test: shapes (2,), finite cells, ndf None',
              'shape-independence twins': '(2,)~(1,2)'},
    'thorough': {'bins': 'm <= 4 (shapes (1,), (2,), (3,), (4,), (2,2), (1,3), (2,1,2))', 'datasets_compared': '1; 2 for m <= 3; 3 for m <= 2',
                 'p-values': 'symbolic reals in [0,1] or NaN (ties, zeros and ones included)',
                 'alpha': 'symbolic real in (0,1)',
                 'student_jobs': 'real TestStudent as first test: shapes (2,), (3,), (2,2), extended-real cells, ndf None/opaque',
                 'shape-independence twins': '(2,)~(1,2), (3,)~(3,1), (3,)~(1,3)  (4 cells: more than 40 min per pair, outside)'},
}
ASSUMPTIONS = [
    'numpy.argsort replaced by a stub returning any permutation that sorts (NaN last, ties free); numpy.sort/searchsorted likewise',
    'the overall level of the statement is the two-sided level alpha/2 that the classes document; Bonferroni flags p <= alpha/2/m, '
    'Holm flags p < alpha/2/(m-k+1); a NaN p-value must be flagged by both',
    "the statement's two definitional clauses (at most / below) contradict its implication clause at the single point p = alpha/(2m) "
    'with rank 1: the implication Bonferroni-flag => Holm-flag is asserted for p_i != alpha/(2m) only',
    "the modules' np global is a facade identical to numpy except that lists of symbolic scalars are stacked without C-level coercion",
    'floats idealised as reals (exact comparisons)',
]
OUTSIDE = ['more than 4 bins', 'rounding of alpha/(2m)', 'rejected_proportion']
EXPLANATION = ('bounded symbolic execution (symrun + z3, linear real arithmetic; QF_NRA with law stubs for the Student-based jobs) of '
               'the real Bonferroni / Holm-Bonferroni code; flags, levels, counts and verdict decided per path')


def _mods():
    import valjean.gavroche.stat_tests.bonferroni as bf
    import valjean.gavroche.stat_tests.student as st
    import valjean.gavroche.test as vt
    import valjean.eponine.dataset as vd
    return bf, st, vt, vd


def _stub_test(pvals, size):
    """a first test handing out the given p-values (one array per compared dataset)"""
    from valjean.gavroche.test import Test, TestResult

    class _Res(TestResult):
        def __init__(self, test, pvalue):
            super().__init__(test)
            self.pvalue = pvalue

        def __bool__(self):
            return True

    class _DS:
        pass

    class _PTest(Test):
        def __init__(self):
            super().__init__(name='ptest')
            self.dsref = _DS()
            self.dsref.size = size

        def evaluate(self):
            return _Res(self, list(pvals))

        def data(self):
            yield b'ptest'
    return _PTest()


def _pvals(ex, shape, nds):
    out = []
    for k in range(nds):
        if len(shape) >= 2 and min(shape) >= 2 and ex.flag(f'p{k}-not-C-ordered'):
            # a transposed view (Fortran-ordered memory), as a user-made first test may hand out
            a = sym_real_array(ex, f'p{k}', tuple(reversed(shape)), special=True).T
        else:
            a = sym_real_array(ex, f'p{k}', shape, special=True)
        for c in cells(a):
            if ex.symbolic:
                ex.side(O.band(O.bnot(O.isinf(c)), O.bor(O.isnan(c), O.band(c >= 0, c <= 1))).t)
        out.append(a)
    return out


def _alpha(ex):
    alpha = ex.real('alpha')
    ex.assume(O.band(alpha > 0, alpha < 1))
    return alpha


def _not_gt(p, lvl):
    """flag for Bonferroni: p <= lvl, and NaN flagged"""
    return O.bnot(p > lvl)


def _not_ge(p, lvl):
    return O.bnot(p >= lvl)


def holm_oracle(ps, flags, levels, half_alpha):
    """SOME permutation sorting ps (NaN last) explains flags (and levels, if given)"""
    m = len(ps)
    alts = []
    lvls = [half_alpha / (m - rank0) for rank0 in range(m)]
    nans = [O.isnan(p) for p in ps]
    le = {(i, j): O.bor(nans[j], O.band(O.bnot(nans[i]), O.bnot(ps[j] < ps[i])))
          for i in range(m) for j in range(m) if i != j}           # p_i may precede p_j
    flag_ok = {(i, r): O.iff(flags[i], _not_ge(ps[i], lvls[r])) for i in range(m) for r in range(m)}
    lvl_ok = {(i, r): O.eq(levels[i], lvls[r]) for i in range(m) for r in range(m)} if levels is not None else None
    for perm in itertools.permutations(range(m)):
        conds = [le[(perm[i], perm[i + 1])] for i in range(m - 1)]
        for rank0, idx in enumerate(perm):
            conds.append(flag_ok[(idx, rank0)])
            if lvl_ok is not None:
                conds.append(lvl_ok[(idx, rank0)])
        alts.append(O.band(*conds))
    return O.bor(*alts)


def make_harness(kind, shape, nds, history=False):
    m = int(np.prod(shape, dtype=int))

    def harness(ex):
        bf, st, vt, vd = _mods()
        import contextlib
        with (numpy_facade(bf, vt) if ex.symbolic else contextlib.nullcontext()):
            if history:
                # both corrections were applied EARLIER in the process to arrays of the same shape at ANOTHER (symbolic) level:
                # the observed evaluation must not depend on it
                a0 = ex.real('alpha-earlier')
                ex.assume(O.band(a0 > 0, a0 < 1))
                pv0 = [sym_real_array(ex, f'q{k}', shape, special=False) for k in range(nds)]
                for a in pv0:
                    for cc in cells(a):
                        if ex.symbolic:
                            ex.side(O.band(cc >= 0, cc <= 1).t)
                first0 = _stub_test(pv0, m)
                bf.TestBonferroni(name='b0', test=first0, alpha=a0).evaluate()
                bf.TestHolmBonferroni(name='h0', test=first0, alpha=a0).evaluate()
            alpha = _alpha(ex)
            pv = _pvals(ex, shape, nds)
            first = _stub_test(pv, m)
            if kind in ('bonf', 'both'):
                rb = bf.TestBonferroni(name='b', test=first, alpha=alpha).evaluate()
                ok = len(rb.rejected_null_hyp) == nds and all(np.shape(r) == tuple(shape) for r in rb.rejected_null_hyp)
                ex.check(ok, 'bonferroni:flags-shape')
                if not ok:
                    return
                lvl = alpha / 2 / m
                bflags = [cells(r) for r in rb.rejected_null_hyp]
                for k in range(nds):
                    for f, p in zip(bflags[k], cells(pv[k])):
                        ex.check(O.iff(f, _not_gt(p, lvl)), 'bonferroni:flag-iff-p-at-most-level-or-undefined')
                nb = rb.nb_rejected
                for k in range(nds):
                    want = 0
                    for f in bflags[k]:
                        want = want + _as_num(f)
                    ex.check(O.eq(_scal(nb[k]), want), 'bonferroni:nb_rejected-is-the-count')
                orc = rb.oracles()
                for k in range(nds):
                    ex.check(O.iff(orc[k], O.bnot(O.bor(*bflags[k]))), 'bonferroni:oracles-per-dataset')
            if kind in ('holm', 'both'):
                rh = bf.TestHolmBonferroni(name='h', test=first, alpha=alpha).evaluate()
                ok = len(rh.rejected_null_hyp) == nds and len(rh.alphas_i) == nds and \
                    all(np.shape(r) == tuple(shape) for r in rh.rejected_null_hyp) and \
                    all(np.shape(r) == tuple(shape) for r in rh.alphas_i)
                ex.check(ok, 'holm:flags-and-levels-shape')
                if not ok:
                    return
                hflags = [cells(r) for r in rh.rejected_null_hyp]
                for k in range(nds):
                    ex.check(holm_oracle(cells(pv[k]), hflags[k], cells(rh.alphas_i[k]), alpha / 2),
                             'holm:flags-and-levels-explained-by-a-sorting-permutation')
                    ex.check(O.band(*[O.implies(O.isnan(p), f) for p, f in zip(cells(pv[k]), hflags[k])]),
                             'holm:undefined-p-value-is-flagged')
                nb = rh.nb_rejected
                for k in range(nds):
                    want = 0
                    for f in hflags[k]:
                        want = want + _as_num(f)
                    ex.check(O.eq(_scal(nb[k]), want), 'holm:nb_rejected-is-the-count')
                orc = rh.oracles()
                for k in range(nds):
                    ex.check(O.iff(orc[k], O.bnot(O.bor(*hflags[k]))), 'holm:oracles-per-dataset')
            if kind == 'both':
                lvl = alpha / 2 / m
                for k in range(nds):
                    for fb, fh, p in zip(bflags[k], hflags[k], cells(pv[k])):
                        ex.check(O.implies(O.band(fb, O.bnot(O.eq(p, lvl))), fh),
                                 'bonferroni-flag-implies-holm-flag')
            # verdicts last (bool() forks)
            if kind in ('bonf', 'both'):
                vb = bool(rb)
                ex.check(O.iff(vb, O.bnot(O.bor(*[f for fl in bflags for f in fl]))), 'bonferroni:verdict-iff-nothing-flagged')
            if kind in ('holm', 'both'):
                vh = bool(rh)
                ex.check(O.iff(vh, O.bnot(O.bor(*[f for fl in hflags for f in fl]))), 'holm:verdict-iff-nothing-flagged')
    return harness


def _as_num(f):
    if O.is_sym(f):
        from engine.symrun.core import SReal, If, zbool
        import z3
        return SReal(If(zbool(f), z3.RealVal(1), z3.RealVal(0)))
    return 1 if f else 0


def _scal(x):
    c = cells(x)
    return c[0]


def make_twin(shape_a, shape_b):
    """same p-values (distinct, at most one NaN) under another shape: flags follow the bins"""
    m = int(np.prod(shape_a, dtype=int))

    def harness(ex):
        bf, st, vt, vd = _mods()
        import contextlib
        with (numpy_facade(bf, vt) if ex.symbolic else contextlib.nullcontext()):
            alpha = _alpha(ex)
            pa = _pvals(ex, shape_a, 1)[0]
            ca = cells(pa)
            for i in range(m):
                for j in range(i + 1, m):
                    ex.assume(O.band(O.bnot(O.eq(ca[i], ca[j])), O.bnot(O.band(O.isnan(ca[i]), O.isnan(ca[j])))))
            perm = list(itertools.permutations(range(m)))[ex.choice(_fact(m), 'bin-permutation')]
            pb = np.empty(m, dtype=object if ex.symbolic else float)
            for i, j in enumerate(perm):
                pb[i] = ca[j]
            pb = pb.reshape(shape_b)
            if ex.symbolic:
                pb = pb.view(SymArray)
            for cls, lab in ((bf.TestBonferroni, 'bonferroni'), (bf.TestHolmBonferroni, 'holm')):
                ra = cls(name='a', test=_stub_test([pa], m), alpha=alpha).evaluate()
                rb = cls(name='b', test=_stub_test([pb], m), alpha=alpha).evaluate()
                fa, fb = cells(ra.rejected_null_hyp[0]), cells(rb.rejected_null_hyp[0])
                ok = len(fa) == m and len(fb) == m
                ex.check(ok, lab + ':twin-shape')
                if ok:
                    ex.check(O.band(*[O.iff(fb[i], fa[j]) for i, j in enumerate(perm)]),
                             lab + ':flags-follow-the-bins-under-permutation-and-reshaping')
    return harness


def _fact(n):
    r = 1
    for i in range(2, n + 1):
        r *= i
    return r


def make_student(shape, special, with_ndf):
    """a comparison that passes bin by bin also passes both corrections at the same level"""
    def harness(ex):
        from checks import C05
        bf, st, vt, vd = _mods()
        import contextlib
        from valjean.eponine.dataset import Dataset
        with C05._stub_laws(ex), (numpy_facade(bf) if ex.symbolic else contextlib.nullcontext()):
            alpha, ndf = C05._alpha_ndf(ex, with_ndf)
            av, ae = C05._mk(ex, 'a', shape, False, not special)
            bv, be = C05._mk(ex, 'b', shape, False, not special)
            mk = lambda: st.TestStudent(Dataset(av, ae), Dataset(bv, be), name='s', alpha=alpha, ndf=ndf)  # noqa
            rs = mk().evaluate()
            rb = bf.TestBonferroni(name='b', test=mk(), alpha=alpha).evaluate()
            rh = bf.TestHolmBonferroni(name='h', test=mk(), alpha=alpha).evaluate()
            vs = bool(rs)
            if vs:
                vb = bool(rb)
                ex.check(vb, 'student-pass-implies-bonferroni-pass')
                vh = bool(rh)
                ex.check(vh, 'student-pass-implies-holm-pass')
    return harness


def _job(kind, timeout_ms, seed=0, **p):
    if kind == 'twin':
        return run_sym('x', make_twin(p['shape'], p['shape_b']), timeout_ms=timeout_ms, seed=seed)
    if kind == 'student':
        return run_sym('x', make_student(p['shape'], p['special'], p['with_ndf']), timeout_ms=timeout_ms, seed=seed,
                       logic='QF_NRA')
    return run_sym('x', make_harness(kind, p['shape'], p['nds'], p.get('history', False)), timeout_ms=timeout_ms, seed=seed)


def jobs(tier):
    out = []
    t = 30000 if tier == 'quick' else 300000
    if tier == 'quick':
        shapes = [(1,), (2,), (3,), (1, 2)]
        ndss = [1, 2]
    else:
        shapes = [(1,), (2,), (3,), (4,), (2, 2), (1, 3), (2, 1, 2)]
        ndss = [1, 2, 3]
    for shape in shapes:
        m = int(np.prod(shape))
        for nds in ndss:
            if tier == 'quick' and nds > 1 and m > 2:
                continue
            if tier == 'thorough' and ((nds == 2 and m > 3) or (nds == 3 and m > 2)):
                continue
            for kind in ('bonf', 'holm', 'both'):
                out.append((f'{kind}-{shape}-n{nds}', _job, dict(kind=kind, shape=shape, nds=nds, timeout_ms=t)))
    if tier == 'quick':
        out.append(('bonf-(2, 2)-n1', _job, dict(kind='bonf', shape=(2, 2), nds=1, timeout_ms=t)))
        out.append(('holm-(2, 2)-n1', _job, dict(kind='holm', shape=(2, 2), nds=1, timeout_ms=t)))
    # the same corrections applied earlier in the process at another level to arrays of the same shape
    for shape in ([(2,)] if tier == 'quick' else [(2,), (3,)]):
        out.append((f'both-{shape}-n1-after-another-level', _job, dict(kind='both', shape=shape, nds=1, history=True, timeout_ms=t)))
    twins = [((2,), (1, 2))] if tier == 'quick' else [((2,), (1, 2)), ((3,), (3, 1)), ((3,), (1, 3))]     # 4 cells: > 40 min per job
    for a, b in twins:
        out.append((f'twin-{a}-{b}', _job, dict(kind='twin', shape=a, shape_b=b, timeout_ms=t)))
    st_jobs = [((2,), False, False)] if tier == 'quick' else \
        [((2,), False, False), ((2,), True, False), ((2,), True, True), ((3,), False, False), ((2, 2), False, False)]
    for shape, special, with_ndf in st_jobs:
        out.append((f'student-{shape}-sp{int(special)}-ndf{int(with_ndf)}', _job,
                    dict(kind='student', shape=shape, special=special, with_ndf=with_ndf, timeout_ms=t)))
    return out


def replay(rp):
    for j in jobs('thorough') + jobs('quick'):
        if j[0] == rp['job']:
            p = dict(j[2])
            kind = p.pop('kind')
            if kind == 'twin':
                h = make_twin(p['shape'], p['shape_b'])
            elif kind == 'student':
                h = make_student(p['shape'], p['special'], p['with_ndf'])
            else:
                h = make_harness(kind, p['shape'], p['nds'], p.get('history', False))
            return replay_sym(h, rp['inputs'])
    raise KeyError(rp['job'])
