"""C14 -- persisted environments survive crashes: a bad file means not-done, not an abort.

Engine E1 (symrun) with fault stubs.  The real write_env / Env.to_file / read_env / Env.from_file /
merge_done_tasks run against a dictionary file system and a pickle stub:
 * dump stores a snapshot, or the write phase CRASHES at a solver-chosen file leaving it empty or
   truncated (later files are then not written at all);
 * open() may fail with OSError (symbolic errno) for reading or writing, files may be missing,
   may hold an intact older environment, or garbage;
 * load() of anything but an intact file raises ANY exception of pickle's documented contract
   (solver-chosen among EOFError, UnpicklingError, AttributeError, ImportError, IndexError, ValueError).
"""
import io
import pickle
import contextlib
from engine.runner import run_sym, replay_sym

PID = 'C14'
LEVEL = 'other'
TARGETS = ['valjean.cosette.env:Env.from_file', 'valjean.cosette.env:Env.to_file', 'valjean.cosette.env:Env.merge_done_tasks',
           'valjean.cosette.env:Env.__getstate__', 'valjean.cosette.env:Env.__setstate__',
           'valjean.cambronne.common:read_env', 'valjean.cambronne.common:write_env']
BOUNDS = {'quick': {'real pickle job': '2 tasks, payload plain / numpy array / an Env inside the payload, DONE or FAILED, written once or twice to a real directory',
                    'tasks': '1 (all 5 statuses), 2 (statuses DONE/FAILED/WAITING)', 'output_dir': 'present or absent per task',
                    'faults': 'per file: older intact DONE file / missing before; write: ok, open fails (any errno), crash leaving empty or truncated file, '
                              'crash while the entry is being serialised (into the open file or, for implementations that serialise first, into memory); '
                              'read: open fails (errno symbolic), garbage; unpickling raises any documented exception'},
          'thorough': {'tasks': '<= 2 with all statuses and faults; 3 with statuses DONE/FAILED and faults ok/crash-truncated', 'faults': 'as quick'}}
ASSUMPTIONS = ['the byte level of pickle is stubbed by its contract: load of an intact file returns what dump stored; load of an empty, truncated or '
               'garbage file raises one of EOFError, pickle.UnpicklingError, AttributeError, ImportError, IndexError, ValueError (truncating a real '
               'pickled Env at every byte gives EOFError/UnpicklingError: checked at start-up)',
               'a crash during the write phase leaves the file being written empty or truncated and skips the remaining files; the stubs offer both '
               'styles of use (dump into / load from an open file; dumps + write / read + loads), so that a rewrite in the other style is judged on '
               'its behaviour',
               'payloads are picklable']
OUTSIDE = ['payloads that cannot be pickled', 'unpicklers that hang on garbage', 'file-system errors other than OSError on open()']
EXPLANATION = ('bounded symbolic execution (symrun + z3) of the real persistence code against fault-injecting stubs of open() and pickle; '
               'statuses, fault kinds, errno values and the exception raised by a damaged file are solver-chosen')

EXC = [EOFError, pickle.UnpicklingError, AttributeError, ImportError, IndexError, ValueError]
FILENAME = 'valjean.env'


class Crash(BaseException):
    """the process dies during the write phase"""


class _Blob:
    """stands for the bytes of one serialised object (dumps) or for the whole content of one file (read)"""

    def __init__(self, obj=None, path=None):
        self.obj, self.path = obj, path


class _F:
    def __init__(self, fs, path, mode):
        self.fs, self.path, self.mode = fs, path, mode

    def write(self, blob):
        # an implementation that serialises first (dumps) and writes the bytes afterwards
        if not isinstance(blob, _Blob) or blob.obj is None:
            raise TypeError('the file stub only takes what the pickle stub produced')
        if self.fs.write_fault.get(self.path, 'ok') in ('crash-truncated', 'crash-serializing'):
            self.fs.files[self.path] = ('bad', 'truncated')
            raise Crash()
        self.fs.files[self.path] = ('intact', blob.obj)

    def read(self, *a):
        return _Blob(path=self.path)

    def __enter__(self):
        return self

    def __exit__(self, *a):
        return False


class World:
    def __init__(self, ex):
        self.ex = ex
        self.files = {}          # path -> ('intact', object) | ('bad', why)
        self.write_fault = {}    # path -> 'ok' | 'openfail' | 'crash-empty' | 'crash-truncated'
        self.read_fault = {}     # path -> None | errno proxy
        self.log = []

    def open(self, path, mode='r', *a, **k):
        path = str(path)
        if 'w' in mode:
            f = self.write_fault.get(path, 'ok')
            if f == 'openfail':
                raise OSError(self.errno_w, 'cannot open for writing')      # errno stays symbolic
            self.files[path] = ('bad', 'empty')          # opening for writing truncates
            if f == 'crash-empty':
                raise Crash()
            return _F(self, path, mode)
        if path in self.read_fault and self.read_fault[path] is not None:
            en = self.read_fault[path]
            raise OSError(en, 'cannot open for reading')
        if path not in self.files:
            raise FileNotFoundError(2, 'No such file or directory')
        return _F(self, path, mode)

    # pickle stub
    def dump(self, obj, file_, *a, **k):
        f = self.write_fault.get(file_.path, 'ok')
        if f in ('crash-truncated', 'crash-serializing'):
            # the process dies while the object is being serialised into the (already opened, hence truncated) file
            self.files[file_.path] = ('bad', 'truncated')
            raise Crash()
        # snapshot through the real __getstate__/__setstate__ protocol (deep copy by real pickle)
        self.files[file_.path] = ('intact', pickle.loads(pickle.dumps(obj)))

    def dumps(self, obj, *a, **k):
        # serialisation into memory: the file it is meant for is the one of the (single) task of a partial environment
        names = list(getattr(obj, 'dictionary', {}) or {})
        for nm in names:
            if self.write_fault.get(f'/out/{nm}/{FILENAME}') == 'crash-serializing':
                raise Crash()          # the process dies while serialising; whatever is on disk stays as it is
        return _Blob(obj=pickle.loads(pickle.dumps(obj)))

    def loads(self, blob, *a, **k):
        if not isinstance(blob, _Blob) or blob.path is None:
            raise TypeError('the pickle stub only takes what the file stub produced')
        return self.load(blob)

    def load(self, file_, *a, **k):
        kind, val = self.files[file_.path]
        if kind == 'intact':
            return pickle.loads(pickle.dumps(val))
        raise EXC[self.ex.choice(len(EXC), f'unpickle-error:{file_.path}')]('damaged environment file')

    UnpicklingError = pickle.UnpicklingError
    PickleError = pickle.PickleError
    HIGHEST_PROTOCOL = pickle.HIGHEST_PROTOCOL


@contextlib.contextmanager
def _patched(world):
    import valjean.cosette.env as envmod
    saved = envmod.__dict__.get('open', None), envmod.pickle
    envmod.open = world.open
    envmod.pickle = world
    try:
        yield
    finally:
        if saved[0] is None:
            del envmod.open
        else:
            envmod.open = saved[0]
        envmod.pickle = saved[1]


def make_harness(n, statuses=None, first=None, light=False):
    def harness(ex):
        from valjean.cosette.env import Env
        from valjean.cosette.task import TaskStatus
        from valjean.cambronne.common import read_env, write_env
        sts = list(TaskStatus) if statuses is None else [TaskStatus[x] for x in statuses]
        world = World(ex)
        names = [f't{i}' for i in range(n)]
        env = Env()
        now = {}
        for i, nm in enumerate(names):
            st = TaskStatus[first] if (i == 0 and first) else sts[ex.choice(len(sts), f'status{i}')]
            ent = {'status': st, 'result': ('payload', i, 'new')}
            if ex.flag(f'has-output-dir{i}'):
                ent['output_dir'] = f'/out/{nm}'
            env[nm] = ent
            now[nm] = ent
            path = f'/out/{nm}/{FILENAME}'
            # what is on disk before: nothing, or the intact file of an earlier run (DONE, older payload)
            if 'output_dir' in ent and ex.flag(f'older-file{i}'):
                world.files[path] = ('intact', Env({nm: {'status': TaskStatus.DONE, 'result': ('payload', i, 'old'),
                                                        'output_dir': f'/out/{nm}'}}))
            wfs = ['ok', 'crash-truncated'] if light else ['ok', 'openfail', 'crash-empty', 'crash-truncated', 'crash-serializing']
            world.write_fault[path] = wfs[ex.choice(len(wfs), f'write-fault{i}')]
        world.errno_w = ex.int('errno-w', 1, 200)
        before = {p: v for p, v in world.files.items()}
        crashed = False
        with _patched(world):
            try:
                write_env(env, filename=FILENAME, fmt='pickle')
            except Crash:
                crashed = True
            except Exception as e:      # noqa
                ex.check(False, 'write_env-never-raises', detail=repr(e))
                return
        # between the runs: a file may become unreadable or be replaced by garbage
        garbage = set()
        for i, nm in enumerate(names):
            path = f'/out/{nm}/{FILENAME}'
            k = ex.choice(3, f'read-fault{i}')
            if k == 1:
                world.read_fault[path] = ex.int(f'errno-r{i}', 1, 200)
            elif k == 2 and path in world.files:
                world.files[path] = ('bad', 'garbage')
                garbage.add(path)
        with _patched(world):
            try:
                got = read_env(root='/out', names=names, filename=FILENAME, fmt='pickle')
            except Exception as e:      # noqa
                ex.check(False, 'read_env-never-raises', detail=f'{type(e).__name__}: {e}')
                return
        # expectation from the model of what happened (independent of the stub's file table)
        good = True
        dead = False                      # the writing process has crashed at an earlier file
        for i, nm in enumerate(names):
            path = f'/out/{nm}/{FILENAME}'
            older = before.get(path)
            wf = world.write_fault[path]
            if dead or 'output_dir' not in now[nm] or wf == 'openfail':
                content = older[1].dictionary.get(nm) if older is not None else None      # untouched
                if wf == 'openfail' and not dead and 'output_dir' in now[nm]:
                    pass
            elif wf in ('crash-empty', 'crash-truncated', 'crash-serializing'):
                # the run ended (killed) with this task in the state now[nm], which was never persisted completely: the task is
                # "not done" for the next run, whatever an earlier run had left in that file
                content = None
                dead = True
            else:
                content = now[nm]
            if world.read_fault.get(path) is not None or path in garbage:
                content = None            # unreadable, or replaced by garbage between the runs
            want = content if content is not None and content.get('status') == TaskStatus.DONE else None
            have = got.dictionary.get(nm)
            if want is None:
                if have is not None:
                    good = False
            elif have != want:
                good = False
        ex.check(good, 'read-back-holds-exactly-the-intact-DONE-entries')
        ex.check(all(v.get('status') == TaskStatus.DONE for v in got.dictionary.values()), 'only-DONE-entries-are-merged')
    return harness


def _selftest():
    from valjean.cosette.env import Env
    from valjean.cosette.task import TaskStatus
    b = pickle.dumps(Env({'t0': {'status': TaskStatus.DONE, 'result': [1, 2, 3], 'output_dir': '/out/t0'}}))
    seen = set()
    for k in range(len(b)):
        try:
            pickle.load(io.BytesIO(b[:k]))
        except Exception as e:      # noqa
            seen.add(type(e))
    assert seen and seen <= set(EXC), seen


def _job(n, timeout_ms, statuses=None, first=None, light=False, seed=0):
    _selftest()
    return run_sym('x', make_harness(n, statuses, first, light), timeout_ms=timeout_ms, seed=seed, max_paths=3000000,
                   require_checks=['read-back-holds-exactly-the-intact-DONE-entries'])


def real_pickle_harness(ex):
    """the real pickle on a real directory: solver-chosen payload kinds (plain, numpy array, an Env inside the payload), the
    environment written ONCE or TWICE (checkpoint + final write) and read back; the live environment keeps working"""
    import os
    import shutil
    import tempfile
    import numpy as np
    from valjean.cosette.env import Env
    from valjean.cosette.task import TaskStatus
    from valjean.cambronne.common import read_env, write_env
    kinds = ['plain', 'array', 'nested-env']
    tmp = tempfile.mkdtemp(prefix='verif_c14r_')
    try:
        env = Env()
        want = {}
        for i in range(2):
            kind = kinds[ex.choice(len(kinds), f'payload{i}')]
            status = [TaskStatus.DONE, TaskStatus.FAILED][ex.choice(2, f'status{i}')]
            payload = {'plain': {'a': i, 'b': [1, 2]}, 'array': np.arange(3.0) + i, 'nested-env': Env({'inner': {'x': i}})}[kind]
            odir = os.path.join(tmp, f't{i}')
            os.makedirs(odir)
            env[f't{i}'] = {'status': status, 'output_dir': odir, 'result': payload}
            want[f't{i}'] = (status, kind, i)
        raised = None
        try:
            for _ in range(1 + ex.choice(2, 'written-twice')):
                write_env(env, filename=FILENAME, fmt='pickle')
        except Exception as e:      # noqa
            raised = f'{type(e).__name__}: {e}'
        ex.check(raised is None, 'real-pickle:write_env-does-not-raise', detail=str(raised))
        # the live environment is still usable (its locks are where they were)
        try:
            with env.lock:          # what every status / result update of the scheduler does first
                pass
            alive = True
        except Exception as e:      # noqa
            alive = f'{type(e).__name__}: {e}'
        ex.check(alive is True, 'real-pickle:the-written-environment-is-still-usable', detail=str(alive))
        for name, (status, kind, i) in want.items():
            if kind == 'nested-env':
                inner = env[name]['result']
                ex.check(hasattr(inner, 'lock') and dict(inner) == {'inner': {'x': i}}, 'real-pickle:payload-objects-are-not-modified-by-writing')
        try:
            back = read_env(root=tmp, names=sorted(want), filename=FILENAME, fmt='pickle')
        except Exception as e:      # noqa
            ex.check(False, 'real-pickle:read_env-does-not-raise', detail=f'{type(e).__name__}: {e}')
            return
        good = set(back) == {n for n, (st, _, _) in want.items() if st == TaskStatus.DONE}
        for name in back:
            status, kind, i = want[name]
            r = back[name].get('result')
            if kind == 'plain':
                good = good and r == {'a': i, 'b': [1, 2]}
            elif kind == 'array':
                good = good and isinstance(r, np.ndarray) and np.array_equal(r, np.arange(3.0) + i)
            else:
                good = good and isinstance(r, Env) and dict(r) == {'inner': {'x': i}}
        ex.check(good, 'real-pickle:read-back-holds-exactly-the-DONE-entries-as-written')
    finally:
        shutil.rmtree(tmp, ignore_errors=True)


def _job_real(timeout_ms, seed=0):
    return run_sym('x', real_pickle_harness, timeout_ms=timeout_ms, seed=seed,
                   require_checks=['real-pickle:read-back-holds-exactly-the-DONE-entries-as-written'])


def jobs(tier):
    t = 20000
    out = [('n1', _job, dict(n=1, timeout_ms=t)), ('real-pickle', _job_real, dict(timeout_ms=t))]
    if tier == 'quick':
        for f in ('DONE', 'FAILED'):
            out.append((f'n2-{f}', _job, dict(n=2, statuses=['DONE', 'FAILED', 'WAITING'], first=f, timeout_ms=t)))
    else:
        for f in ('WAITING', 'PENDING', 'DONE', 'FAILED', 'SKIPPED'):
            out.append((f'n2-{f}', _job, dict(n=2, first=f, timeout_ms=t)))
        for f in ('DONE', 'FAILED'):
            out.append((f'n3-{f}', _job, dict(n=3, statuses=['DONE', 'FAILED'], first=f, light=True, timeout_ms=t)))
    return out


def replay(rp):
    if rp['job'] == 'real-pickle':
        return replay_sym(real_pickle_harness, rp['inputs'])
    for j in jobs('thorough') + jobs('quick'):
        if j[0] == rp['job']:
            p = j[2]
            return replay_sym(make_harness(p['n'], p.get('statuses'), p.get('first'), p.get('light', False)), rp['inputs'])
    raise KeyError(rp['job'])
