"""Shared driver for the scheduler properties C01-C04 (engine threadsym).

One job = one configuration (task graph with hard/soft edges, number of workers):
  1. extract the master and worker automata from the real code (symbolic execution between
     synchronisation points), minimise them;
  2. build the product, unroll K steps (K established by an unwinding query), discharge the
     property queries with z3 (QF_BV) -- the interleaving is a vector of solver variables;
  3. replay every counterexample on the real code with real threads under the solver's schedule.
"""
import time
import json
import itertools
import z3
from engine.runner import JobResult, known_active
from engine.threadsym.roles import Config, extract, KINDS
from engine.threadsym.extract import minimise, ModelError, NewField
from engine.threadsym.bmc import Product, Unrolling, BW
from engine.threadsym import props
from engine.threadsym.replay import run_trace

FINAL = ('DONE', 'FAILED', 'SKIPPED')

TARGETS = ['valjean.cosette.backends.queue:QueueScheduling.execute_tasks',
           'valjean.cosette.backends.queue:QueueScheduling._enqueue',
           'valjean.cosette.backends.queue:QueueScheduling.decide_new_state',
           'valjean.cosette.backends.queue:QueueScheduling.decide_new_state_waiting',
           'valjean.cosette.backends.queue:QueueScheduling.last_end_time',
           'valjean.cosette.backends.queue:QueueScheduling.WorkerThread.run',
           'valjean.cosette.env:Env.set_status', 'valjean.cosette.env:Env.get_status',
           'valjean.cosette.env:Env.atomically', 'valjean.cosette.env:Env.apply',
           'valjean.cosette.env:Env.set_start_end_clock', 'valjean.cosette.env:Env.get_start_clock',
           'valjean.cosette.env:Env.get_end_clock', 'valjean.cosette.scheduler:Scheduler.__init__',
           'valjean.cosette.scheduler:Scheduler.schedule', 'valjean.cosette.depgraph:DepGraph.topological_sort']

ASSUMPTIONS = [
    'threading/queue primitives are modelled by their exact blocking semantics (A.1 of DESIGN): Queue.get/put/task_done/join, '
    'Condition acquire/wait(two phases)/notify_all/release, the environment RLock (re-entrant acquisitions are not synchronisation points), '
    'Thread.start/join; no spurious wake-ups; wait() without timeout',
    'code between two synchronisation points of a thread is one atomic segment (critical sections merged with their acquire: Lipton reduction)',
    'time.time() returns arbitrary non-decreasing instants (solver-chosen)',
    'logging is disabled (the DEBUG-only env.get_status(task) in _enqueue, which inserts a WAITING entry, is not executed)',
    'probe tasks: do() is a synchronisation point; its outcome kind is solver-chosen among ' + ', '.join(KINDS),
    'control points are identified by code location + all concrete locals; automata are minimised by strong bisimulation',
    'partial-order reduction: of two adjacent steps of different threads whose read/write sets (computed from the extracted edges) do not conflict, only the thread-id order is kept (one linearisation per Mazurkiewicz trace)',
    'a dict object stored into the environment stays the entry object: later writes through the thread\'s own reference are propagated to the entry; reads through such a stale reference are not modelled',
    f'integers of the product are {BW}-bit signed bit-vectors; ranges (queue positions, counters, clock instants) are checked, not assumed',
]
OUTSIDE = ['more than 3 tasks, more than 3 workers', 'tasks that touch the scheduler primitives themselves',
           're-use of one backend/Scheduler object for several schedule() calls']


def graphs(n, cyclic=False):
    """all labelled hard/soft/none graphs on n tasks; edges i -> j (i depends on j) with j < i (acyclic)"""
    pairs = [(i, j) for i in range(n) for j in range(i)]
    out = []
    for lab in itertools.product('nhs', repeat=len(pairs)):
        hard = [p for p, l in zip(pairs, lab) if l == 'h']
        soft = [p for p, l in zip(pairs, lab) if l == 's']
        out.append((hard, soft))
    return out


def cfg_name(cfg):
    base = f"n{cfg.n}w{cfg.w}-h{''.join(f'{i}{j}' for i, j in cfg.hard) or '_'}-s{''.join(f'{i}{j}' for i, j in cfg.soft) or '_'}"
    if cfg.prior is not None:
        base += f"-after-h{''.join(f'{i}{j}' for i, j in cfg.prior[0]) or '_'}-s{''.join(f'{i}{j}' for i, j in cfg.prior[1]) or '_'}"
    return base


def default_depth(cfg):
    return 22 + 11 * cfg.n + 6 * cfg.w


class Analysis:
    """extraction + product for one configuration"""

    def __init__(self, cfg, seed=0):
        self.cfg = cfg
        t0 = time.time()
        extra = ()
        for _ in range(3):
            try:
                self.master_raw = extract(cfg, 'master', extra)
                self.worker_raw = extract(cfg, 'worker', extra)
                break
            except NewField as nf:
                extra = extra + (nf.name,)
        else:
            raise ModelError('too many environment fields')
        self.extra_fields = extra
        self.master = minimise(self.master_raw)
        self.worker = minimise(self.worker_raw)
        self.problems = list(self.master_raw.problems) + list(self.worker_raw.problems)
        self.extract_s = time.time() - t0
        self.seed = seed

    def product(self):
        prod = Product(self.cfg, self.master, self.worker)
        # worker symmetry breaking: worker t+1 does not take its first step before worker t did
        return prod

    def stats(self):
        return {'master_control_points': len(self.master_raw.cp_info), 'master_edges': len(self.master_raw.edges),
                'worker_control_points': len(self.worker_raw.cp_info), 'worker_edges': len(self.worker_raw.edges),
                'master_minimised': [len(self.master.cp_info), len(self.master.edges)],
                'worker_minimised': [len(self.worker.cp_info), len(self.worker.edges)],
                'extraction_paths': self.master_raw.explore_stats['paths'] + self.worker_raw.explore_stats['paths'],
                'extraction_solver_queries': self.master_raw.explore_stats['solver_queries'] + self.worker_raw.explore_stats['solver_queries'],
                'extraction_seconds': round(self.extract_s, 1), 'extra_env_fields': list(self.extra_fields)}


def symmetry(prod):
    cs = []
    for t in range(2, prod.T):
        # thread t at its initial control point may only move if thread t-1 has left its own
        cs.append(z3.Implies(z3.And(prod.sched == t, prod.pre[f'pc{t}'] == 0), prod.pre[f'pc{t - 1}'] != 0))
    return z3.And(*cs) if cs else z3.BoolVal(True)


def unroll(prod, K, init, seed=0, timeout_ms=900000):
    u = Unrolling(prod, K, seed=seed, timeout_ms=timeout_ms, por=True)
    u.init(init)
    return u


def model_inputs(u, cfg, model):
    kinds = [u.val(model, 0, f'kind{i}') for i in range(cfg.n)]
    trace = [s for s in u.trace(model) if not s.get('stutter')]
    return kinds, trace


def run_job(cfg, prop_fn, tier, seed=0, depth=None):
    """prop_fn(analysis, prod) -> dict(init=term, setup=callable(prod) adding monitors,
                                       queries=[(name, builder(u) -> term, confirm(replay_result, kinds) -> str|None)])"""
    res = JobResult(cfg_name(cfg))
    t0 = time.time()
    try:
        an = Analysis(cfg, seed)
    except (ModelError, RuntimeError) as e:
        res.inconclusive.append(f'extraction: {type(e).__name__}: {e}')
        return res
    if an.problems:
        res.inconclusive.extend(f'extraction: {p}' for p in an.problems[:3])
        return res
    prod = an.product()
    spec = prop_fn(an, prod)
    K = depth or default_depth(cfg)
    # model sanity monitor: the queue never outgrows its cells (sticky flag, part of every query)
    from engine.threadsym.bmc import QCAP
    prod.add_monitor('oob', 'bool', '', lambda t, e, pre: z3.Or(pre['oob'], pre['qt'] >= QCAP - 1))
    u = None
    unwinding = 'not established'
    for attempt in range(3):
        # per-query solver budget: 15 min in the quick tier; 45 min in the thorough tier (measured under full load: the
        # unwinding query of the slowest 3-task graph, three soft edges, needs a little more than 15 min)
        u = unroll(prod, K, z3.And(spec['init'](prod), z3.Not(prod.pre['oob'])), seed=seed,
                   timeout_ms=900000 if tier == 'quick' else 2700000)
        if (tier == 'quick' or cfg.w > 1 or (cfg.n >= 3 and cfg.soft)) and not spec.get('needs_unwinding'):
            # quick tier: bounded claim (every run, first K steps); K is sized from the code structure and
            # its completeness (no thread enabled at depth K) is established in the thorough tier for one worker.
            # With >= 2 workers the unwinding query itself is out of reach (measured: unknown after 900 s for
            # 2 tasks / 2 workers), and for 3-task graphs WITH soft edges it needs 15-45 min under load and came back
            # unknown four times in one thorough run of C03: the claim stays "every interleaving of the first K steps" there.
            unwinding = f'not attempted: claim limited to the first K={K} steps of every run'
            break
        # one query for: some thread still enabled at depth K (unwinding) or model sanity flag
        r = u.check('unwinding: some thread still enabled at depth K, or the queue outgrows the model',
                    z3.Or(u.at(K, prod.any_enabled), u.at(K, prod.pre['oob'])))
        if r == z3.unsat:
            unwinding = f'established: no thread is enabled after K={K} steps (every run is complete within the bound)'
            break
        if r == z3.unknown:
            res.inconclusive.append(f'unwinding query unknown at K={K}')
            break
        m = u.model()
        if u.val(m, K, 'oob'):
            res.inconclusive.append('the queue outgrows the modelled capacity')
            break
        if attempt == 2:
            res.inconclusive.append(f'unwinding not established up to K={K}')
            break
        K = int(K * 1.4)
    vac = u.check('vacuity: the run can reach master END', u.ever(prod.terminal_kind(0, 'END')))
    if vac != z3.sat and not spec.get('may_not_end'):
        res.inconclusive.append(f'vacuity witness (master reaches END) is {vac}')
    n_replayed = 0
    for (name, builder, confirm) in spec['queries']:
        blocked = []
        for round_ in range(spec.get('max_models', 3)):
            r = u.check(name, z3.Or(builder(u), u.at(u.K, prod.pre['oob'])), *blocked)
            if r == z3.unsat:
                break
            if r == z3.unknown:
                res.inconclusive.append(f'query {name!r}: unknown')
                break
            m = u.model()
            if u.val(m, u.K, 'oob'):
                res.inconclusive.append('the queue outgrows the modelled capacity')
                break
            kinds, trace = model_inputs(u, cfg, m)
            extra = spec['model_extra'](u, m) if 'model_extra' in spec else {}
            rp = run_trace(cfg, trace, kinds, **(spec['replay_kwargs'](extra) if 'replay_kwargs' in spec else {}))
            n_replayed += 1
            verdict = confirm(cfg, rp, kinds, extra) if not rp['diverged'] else None
            rec = {'job': res.name, 'label': name, 'inputs': {'config': cfg.key(), 'kinds': [KINDS[k] for k in kinds],
                                                             'kind_codes': kinds, 'trace': trace, 'extra': extra},
                   'detail': verdict or ''}
            known = spec.get('known', lambda kinds, extra, rp: None)(kinds, extra, rp)
            if rp['diverged']:
                res.inconclusive.append(f'query {name!r}: replay diverged: {rp["diverged"]}')
                break
            if verdict is None:
                res.inconclusive.append(f'query {name!r}: counterexample did not reproduce on the real code')
                break
            if known:
                res.known.append((known[0], known[1]))
                blocked.append(known[2](u))       # exclude this known signature and search again
                continue
            res.violations.append(rec)
            break
    queries_log = [q for q in u.queries]
    solver_s = u.solve_s
    res.stats = {'paths': an.stats()['extraction_paths'], 'solver_queries': an.stats()['extraction_solver_queries'] + len(queries_log),
                 'sat': sum(1 for q in queries_log if q['result'] == 'sat'),
                 'unsat': sum(1 for q in queries_log if q['result'] == 'unsat'),
                 'unknown': sum(1 for q in queries_log if q['result'] == 'unknown'),
                 'solver_seconds': round(solver_s, 2)}
    res.extra = dict(an.stats(), bmc_depth=K, unwinding=unwinding, bmc_queries=queries_log, threads=prod.T,
                     product_state_bits=sum(1 if s == 'bool' else BW for s in prod.sorts.values()),
                     product_edges=len(prod.fires), traces_replayed=n_replayed)
    res.samples = [{'config': cfg.key(), 'bmc_depth': K, 'queries': queries_log[:4]}]
    res.wall_s = time.time() - t0
    return res


def extra_coverage(results, tier):
    states = sum((r.get('extra') or {}).get('master_control_points', 0) + (r.get('extra') or {}).get('worker_control_points', 0)
                 for r in results)
    trans = sum((r.get('extra') or {}).get('master_edges', 0) + (r.get('extra') or {}).get('worker_edges', 0) for r in results)
    rep = sum((r.get('extra') or {}).get('traces_replayed', 0) for r in results)
    return {'states': states, 'transitions': trans, 'traces_validated_against_impl': rep,
            'configurations': len(results),
            'bmc': [{'config': r['name'], 'depth': (r.get('extra') or {}).get('bmc_depth'),
                     'unwinding': (r.get('extra') or {}).get('unwinding'),
                     'queries': (r.get('extra') or {}).get('bmc_queries')} for r in results][:40]}


def generic_replay(module, rp):
    """re-run a stored counterexample on the real code (bin/check Cxx --replay file)"""
    inp = rp['inputs']
    for j in module.jobs('thorough') + module.jobs('quick'):
        if j[0] == rp['job']:
            p = j[2]
            cfg = Config(p['n'], p['hard'], p['soft'], p['w'], prior=p.get('prior'), shared=p.get('shared', False))
            spec_confirm = module.CONFIRM[rp['label']]
            kw = module.replay_kwargs(inp.get('extra') or {}) if hasattr(module, 'replay_kwargs') else {}
            r = run_trace(cfg, inp['trace'], inp['kind_codes'], **kw)
            if r['diverged']:
                return None
            v = spec_confirm(cfg, r, inp['kind_codes'], inp.get('extra') or {})
            return [(rp['label'], v)] if v else None
    raise KeyError(rp['job'])


def standard_jobs(tier, job_fn, cyclic=False, light=False, no_w2=False, skip_thorough=()):
    """light: names of configurations to leave out of the quick tier (unsat proofs that take more than ~4 minutes)"""
    cfgs = []
    for hard, soft in graphs(2):
        for w in (1, 2):       # 3 workers: the queries for 2 tasks come back unknown after 900 s each -- outside the bound
            if tier == 'quick' and w == 2 and not hard:
                continue            # quick: two workers only on the hard-edge graph (unsat proofs cost minutes)
            cfgs.append((2, hard, soft, w))
    if tier == 'quick':
        cfgs += [(3, [(1, 0), (2, 1)], [], 1), (3, [(2, 0)], [(2, 1)], 1), (3, [(1, 0)], [(2, 1)], 1)]
        if light:
            # light = names of configurations left out of the quick tier of that property (measured unsat proofs > 4 min)
            cfgs = [c for c in cfgs if cfg_name(Config(*c)) not in light]
    else:
        if no_w2:
            # C03 / C04 start from an ARBITRARY initial environment: with two workers their queries need 30-75 min each and one
            # came back unknown after 45 min (measured) -- two workers are outside their thorough bound (cyclic graphs excepted)
            cfgs = [c for c in cfgs if c[3] == 1]
        for hard, soft in graphs(3):
            cfgs.append((3, hard, soft, 1))
        # 3-task graphs with 2 workers are NOT in the bound: their unsat/unwinding queries exceed 15 minutes each
        # (measured: unknown after 900 s), and a check that cannot be conclusive must not be registered
    if cyclic:
        cyc2 = [([(0, 1), (1, 0)], []), ([(0, 1)], [(1, 0)]), ([], [(0, 1), (1, 0)])]
        for hard, soft in cyc2:
            for w in ((1,) if tier == 'quick' else (1, 2)):
                cfgs.append((2, hard, soft, w))
        cfgs.append((3, [(0, 1), (1, 2), (2, 0)], [], 1))
        if tier == 'thorough':
            cfgs.append((3, [(0, 1), (1, 2)], [(2, 0)], 2))
            cfgs.append((1, [(0, 0)], [], 1))
    out = []
    for n, hard, soft, w in cfgs:
        c = Config(n, hard, soft, w)
        if tier == 'thorough' and cfg_name(c) in skip_thorough:
            continue
        out.append((cfg_name(c), job_fn, dict(n=n, hard=hard, soft=soft, w=w, tier=tier)))
    return out


# ----------------------------------------------------------------------------- what the back end is handed
def handed_graphs_harness(ex, clauses=('full', 'hard')):
    """Scheduler.__init__ (symrun, one path per labelled graph): the configurations of the model checker are graphs of plain tasks, which is
    what the back end receives.  This job closes the gap for graphs that contain a NESTED dependency graph (possibly EMPTY) as a node: from
    hard / soft graphs over 3 plain tasks and one nested graph (0 or 1 inner task, at a solver-chosen place of the creation order, every
    pair of nodes unrelated / hard / soft), the full graph handed to the back end orders two plain tasks whenever the hard and soft edges
    (an edge to / from a nested graph standing for all of its tasks, an empty one passing the constraint on) order them (what C01 needs), the hard graph
    exactly when the hard edges do (what the skipping rule of C02 needs), and both hold plain tasks only."""
    from valjean.cosette.depgraph import DepGraph
    from valjean.cosette.scheduler import Scheduler
    from valjean.cosette.task import Task, TaskStatus

    class Plain(Task):
        def do(self, env, config):
            return {}, TaskStatus.DONE
    plain = [Plain(f'p{i}') for i in range(3)]
    inner = [Plain('inner')] if ex.choice(2, 'nested-graph-has-a-task') else []
    sub = DepGraph.from_dependency_dictionary({t: [] for t in inner})
    pos = ex.choice(4, 'place-of-the-nested-graph')
    order = plain[:pos] + [sub] + plain[pos:]
    hard, soft = DepGraph(), DepGraph()
    for x in order:
        hard.add_node(x)
    labels = {}
    for i, x in enumerate(order):
        for j in range(i):
            lab = ex.choice(3, f'edge-{i}-{j}')
            labels[(i, j)] = lab
            if lab == 1:
                hard.add_dependency(x, on=order[j])
            elif lab == 2:
                soft.add_dependency(x, on=order[j])

    class _Backend:
        def execute_tasks(self, **kw):
            raise NotImplementedError
    sc = Scheduler(hard_graph=hard, soft_graph=soft, backend=_Backend())
    tasks = plain + inner

    def expected(kinds):
        """ordering between plain tasks implied by the edges of the given kinds (ports of the nested graph: in -> tasks -> out)"""
        IN, OUT = ('in',), ('out',)
        es = {(OUT, IN)} | {(OUT, t) for t in inner} | {(t, IN) for t in inner}      # a after b written (a, b): OUT after tasks after IN
        for (i, j), lab in labels.items():
            if lab in kinds:
                a = OUT if order[i] is sub else order[i]      # x depends on the nested graph: after ALL of it
                b = IN if order[j] is sub else order[j]
                a2 = IN if order[i] is sub else order[i]      # the nested graph depends on y: all of it after y
                b2 = OUT if order[j] is sub else order[j]
                es.add((a2, b2))
                del a, b
        nodes = {n for e in es for n in e} | set(tasks)
        reach = set(es)
        changed = True
        while changed:
            changed = False
            for (a, b) in list(reach):
                for (c, d) in list(reach):
                    if b is c and (a, d) not in reach:
                        reach.add((a, d))
                        changed = True
        return {(a, b) for (a, b) in reach if any(a is t for t in tasks) and any(b is t for t in tasks) and a is not b}, nodes

    def got(graph):
        out = set()
        ns = list(graph.nodes())
        for a in ns:
            seen, todo = [], list(graph.dependencies(a))
            while todo:
                b = todo.pop()
                if not any(b is s_ for s_ in seen):
                    seen.append(b)
                    todo.extend(graph.dependencies(b))
            out |= {(a, b) for b in seen}
        return out, ns
    for name, graph, kinds in (('full', sc.full_graph, (1, 2)), ('hard', sc.hard_graph, (1,))):
        if name not in clauses:
            continue
        g_reach, g_nodes = got(graph)
        want, _ = expected(kinds)
        ok_nodes = len(g_nodes) == len(tasks) and all(any(n is t for t in tasks) for n in g_nodes)
        ex.check(ok_nodes, f'{name}-graph-handed-to-the-back-end-holds-exactly-the-plain-tasks')
        if ok_nodes and name == 'full':
            # what C01 needs: every ordering the given edges imply is there (more ordering only delays), and no task is ordered after itself
            ex.check(want <= g_reach and not any(a is b for (a, b) in g_reach),
                     'full-graph-handed-to-the-back-end-keeps-every-ordering-the-given-edges-imply')
        if ok_nodes and name == 'hard':
            # what C02 needs: skipping follows the hard relation, exactly
            ex.check(g_reach == want, 'hard-graph-handed-to-the-back-end-orders-two-tasks-exactly-when-the-hard-edges-do')


def _job_handed_graphs(timeout_ms=20000, seed=0, clauses=('full', 'hard'), **_):
    from engine.runner import run_sym
    return run_sym('x', lambda ex: handed_graphs_harness(ex, tuple(clauses)), timeout_ms=timeout_ms, seed=seed, max_paths=100000,
                   require_checks=['full-graph-handed-to-the-back-end-keeps-every-ordering-the-given-edges-imply'])
