"""C17 -- browser selections return exactly the items that match.

Engine E1 (symrun).  The real Browser / Index code runs on item lists whose metadata VALUES are
SKey proxies: arbitrary hashable values of which only equality is observable.  Python's dict/set
inside the inverted index partition them by solver-decided equality, so one path is one equality
pattern between all values and query values (not an enumeration of values).  Presence of keys,
include/exclude sets and the operation chain are forked selectors.  Oracle: the naive scan.
"""
import copy
import numpy as np
from engine.runner import run_sym, replay_sym
from engine.symrun import oracle as O

PID = 'C17'
LEVEL = 'other'
TARGETS = ['valjean.eponine.browser:Browser.__init__', 'valjean.eponine.browser:Browser._build_index',
           'valjean.eponine.browser:Browser._filter_items_id_by', 'valjean.eponine.browser:Browser.filter_by',
           'valjean.eponine.browser:Browser.select_by', 'valjean.eponine.browser:Browser.merge',
           'valjean.eponine.browser:Browser.keys', 'valjean.eponine.browser:Browser.available_values',
           'valjean.eponine.browser:Browser.__contains__', 'valjean.eponine.browser:Index.keep_only']
BOUNDS = {
    'quick': {'items': '<= 3', 'metadata keys': "pool {'a','b'} (+ data key, + reserved 'index')",
              'values': 'arbitrary hashable (symbolic, equality only)', 'data_key': ["'results'", "'d'"],
              'query': 'per key: absent or a symbolic value; include/exclude: any subsets of the pool + a key no item has + the data key (single operations and merges; not in the two-query chains)',
              'merge': 'right operand with 1 item, or item-less but carrying global variables',
              'chains': 'single operation (filter_by, select_by, merge, keys/available_values)',
              'long lists': '10 items, one key with two concrete values, every subset of matching items (order of the selection)',
              'three keywords': "2 items over the pool {'a','b','c'}, queries with up to three keyword criteria (no include / exclude)",
              'position key': "queries on the position key 'index' (filter_by, select_by, available_values) on a 3-item browser, on every filter of it and on merges of the filter with a 1-item browser, either way round"},
    'thorough': {'items': '<= 4 (3 for chains)', 'metadata keys': "pool {'a','b'} (+ data key, + reserved 'index')",
                 'values': 'arbitrary hashable (symbolic, equality only)', 'data_key': ["'results'", "'d'"],
                 'query': 'as quick', 'chains': 'filter_by then filter_by / merge / select_by (2 steps)',
                 'long lists': '10 and 13 items, one key with two concrete values, every subset of matching items',
                 'three keywords': "2 and 3 items over the pool {'a','b','c'}, up to three keyword criteria",
                 'position key': "as quick, also with the pool {'a','b'}"},
}
ASSUMPTIONS = ["metadata values are modelled by SKey: constant hash, symbolic ==; the reserved key 'index' is not used as USER metadata (queries on it are covered)",
               'data objects are unhashable lists (as real datasets are), identity is what is compared',
               'counterexamples are replayed with small integers as values']
OUTSIDE = ['more than 4 items with symbolic values / 3 metadata keys; more than 13 items with concrete values', 'values whose == is not an equivalence relation']
EXPLANATION = ('bounded symbolic execution (symrun + z3) of the real Browser/Index code with symbolic-equality keys; '
               'result items, order, data identity, globals, data_key, exceptions and immutability decided per path')

POOL = ['a', 'b']          # rebound per job (module global, jobs run in separate processes)
INCEXC = 'full'
DATA_KEY = 'results'
WITH_DATA_KEY = True


def _mk_items(ex, n, data_key, tag='i'):
    items, datas = [], []
    for i in range(n):
        it = {}
        for k in POOL:
            if ex.flag(f'{tag}{i}has{k}'):
                it[k] = ex.key(f'{tag}{i}{k}')
        d = [f'{tag}data{i}']          # unhashable, unique
        it[data_key] = d
        items.append(it)
        datas.append(d)
    return items, datas


def _query(ex, tag='q'):
    kw = {}
    for k in POOL:
        if ex.flag(f'{tag}has{k}'):
            kw[k] = ex.key(f'{tag}{k}')
    dk = [DATA_KEY] if WITH_DATA_KEY else []      # (not in the two-query chains: path budget)
    extra = POOL + ['zz'] + dk          # a key no item has, and the data key (which every item has)
    if INCEXC == 'none':
        return kw, (), ()
    if INCEXC == 'full':
        inc = tuple(k for k in extra if ex.flag(f'{tag}inc{k}'))
        exc = tuple(k for k in extra if ex.flag(f'{tag}exc{k}'))
    else:
        incs = [(), (POOL[0],), (POOL[0], 'zz'), (POOL[-1],)] + [(k,) for k in dk]
        excs = [(), (POOL[-1],), ('zz',)] + [(k,) for k in dk]
        inc = incs[ex.choice(len(incs), f'{tag}inc')]
        exc = excs[ex.choice(len(excs), f'{tag}exc')]
    return kw, inc, exc


def _naive(items, kw, inc, exc):
    """direct scan; returns per item a (possibly symbolic) boolean"""
    out = []
    for it in items:
        conds = []
        dead = False
        for k, v in kw.items():
            if k not in it:
                dead = True
                break
            conds.append(it[k] == v)
        if not dead and (not set(inc).issubset(it) or set(exc).intersection(it)):
            dead = True
        out.append(False if dead else O.band(*conds) if conds else True)
    return out


def _snap_browser(br):
    return {'content': [(id(it), dict(it)) for it in br.content], 'n': len(br.content),
            'index': {k: [(v, frozenset(s), id(s)) for v, s in d.items()] for k, d in br.index.index.items()},
            'globals': dict(br.globals), 'data_key': br.data_key}


def _same_browser(br, sn):
    if len(br.content) != sn['n'] or br.data_key != sn['data_key'] or br.globals != sn['globals']:
        return False
    for it, (i, d) in zip(br.content, sn['content']):
        if id(it) != i or list(it) != list(d) or any(it[k] is not d[k] for k in d):
            return False
    if list(br.index.index) != list(sn['index']):
        return False
    for k, lst in sn['index'].items():
        cur = list(br.index.index[k].items())
        if len(cur) != len(lst):
            return False
        for (v1, s1), (v0, s0, i0) in zip(cur, lst):
            if v1 is not v0 or frozenset(s1) != s0 or id(s1) != i0:
                return False
    return True


def _snap_inputs(items):
    return [(id(it), list(it.items())) for it in items]


def _same_inputs(items, sn):
    return len(items) == len(sn) and all(
        id(it) == i and len(it) == len(kv) and all(k in it and it[k] is v for k, v in kv)
        for it, (i, kv) in zip(items, sn))


def _check_sub(ex, sub, src_items, match, data_key, globs, lab):
    """sub must hold exactly the matching items of src_items, in order, same data objects"""
    from valjean.eponine.browser import Browser
    ok = isinstance(sub, Browser)
    ex.check(ok, lab + ':is-browser')
    if not ok:
        return
    want = [it for it, m in zip(src_items, match) if _decided(m)]
    ok = len(sub.content) == len(want)
    ex.check(ok, lab + ':number-of-items')
    if ok:
        good = True
        for got, w in zip(sub.content, want):
            if got.get(data_key) is not w[data_key]:
                good = False
            for k in POOL:
                if (k in got) != (k in w) or (k in w and got[k] is not w[k]):
                    good = False
        ex.check(good, lab + ':same-items-same-order-same-data')
    ex.check(sub.globals == globs, lab + ':globals-kept')
    ex.check(sub.data_key == data_key, lab + ':data-key-kept')


def _decided(m):
    """the real code has already forked on every equality the match depends on: bool() is forced"""
    return bool(m)


def make_long_harness(n, data_key):
    """many items (more than the 8 slots of a small hash table), one metadata key with two values: WHICH items carry
    the queried value is solver-chosen (one path per subset); the selection must come back in list order, also from a
    merged browser and from a filter of a filter"""
    def harness(ex):
        from valjean.eponine.browser import Browser
        hit = [ex.flag(f'item{i}-matches') for i in range(n)]
        items = [{'a': 'x' if h else 'y', 'n': i % 2, data_key: [f'data{i}']} for i, h in enumerate(hit)]
        datas = [it[data_key] for it in items]
        br = Browser(items, data_key=data_key)
        sn = _snap_browser(br)
        want = [d for d, h in zip(datas, hit) if h]
        sub = br.filter_by(a='x')
        ex.check([c[data_key] for c in sub.content] == want and all(g is w for g, w in zip([c[data_key] for c in sub.content], want)),
                 'long:filter_by-returns-the-matching-items-in-list-order')
        sub2 = sub.filter_by(n=1)
        want2 = [d for i, (d, h) in enumerate(zip(datas, hit)) if h and i % 2]
        ex.check([c[data_key] for c in sub2.content] == want2, 'long:filter_by-of-filter_by-in-list-order')
        ex.check([c[data_key] for c in br.filter_by(include=('a',), exclude=('zz',), n=0).content] == [d for i, d in enumerate(datas) if i % 2 == 0],
                 'long:include-exclude-in-list-order')
        half = n // 2
        mg = Browser(items[:half], data_key=data_key).merge(Browser(items[half:], data_key=data_key))
        ex.check([c[data_key] for c in mg.filter_by(a='x').content] == want, 'long:filter_by-of-a-merged-browser-in-list-order')
        ex.check(_same_browser(br, sn), 'long:original-browser-unchanged')
    return harness


def make_harness(n, data_key, mode, n2=1, pool='ab', incexc='full', globs_on=False):
    if mode == 'long':
        return make_long_harness(n, data_key)

    def harness(ex):
        global POOL, INCEXC, DATA_KEY, WITH_DATA_KEY
        POOL, INCEXC, DATA_KEY, WITH_DATA_KEY = list(pool), incexc, data_key, mode != 'chain'
        from valjean.eponine.browser import Browser, NoItemBrowserError, TooManyItemsBrowserError
        items, datas = _mk_items(ex, n, data_key)
        globs = {'g': 1} if globs_on else None
        sn_in = _snap_inputs(items)
        br = Browser(items, data_key=data_key, global_vars=globs) if data_key != 'results' or globs_on \
            else Browser(items, global_vars=globs)
        gl = globs or {}
        ex.check(_same_inputs(items, sn_in), 'init:input-dictionaries-unchanged')
        ok = len(br.content) == n and all(c[data_key] is d for c, d in zip(br.content, datas)) and br.globals == gl \
            and br.globals is not globs and br.data_key == data_key
        ex.check(ok, 'init:content-globals-datakey')
        src = [dict(it) for it in items]          # the original list (values are the same proxy objects)
        sn = _snap_browser(br)
        if mode == 'keys':
            keys = set(br.keys())
            want = {'index'} | {k for it in items for k in it if k != data_key} if n else set()
            ex.check(keys == want, 'keys:exactly-the-metadata-keys')
            for k in POOL + ['zz']:
                vals = br.available_values(k)
                have = [it[k] for it in items if k in it]
                # every item value is equal to exactly one available value
                good = all(sum(1 for v in vals if bool(v == h)) == 1 for h in have) and \
                    all(any(bool(v == h) for h in have) for v in vals)
                ex.check(good, 'available_values:partition-of-the-item-values')
                ex.check((k in br) == bool(have), 'contains:key-present-iff-some-item-has-it')
        elif mode == 'filter':
            kw, inc, exc = _query(ex)
            sub = br.filter_by(include=inc, exclude=exc, **kw)
            match = _naive(src, kw, inc, exc)
            _check_sub(ex, sub, src, match, data_key, gl, 'filter_by')
        elif mode == 'select':
            kw, inc, exc = _query(ex)
            match = _naive(src, kw, inc, exc)
            try:
                got = br.select_by(include=inc, exclude=exc, **kw)
                outcome = 'item'
            except NoItemBrowserError:
                outcome = 'none'
            except TooManyItemsBrowserError:
                outcome = 'many'
            hits = [i for i, m in enumerate(match) if _decided(m)]
            if len(hits) == 0:
                ex.check(outcome == 'none', 'select_by:raises-no-item-when-nothing-matches')
            elif len(hits) > 1:
                ex.check(outcome == 'many', 'select_by:raises-too-many-when-several-match')
            else:
                ex.check(outcome == 'item' and got[data_key] is datas[hits[0]] and got is br.content[hits[0]],
                         'select_by:returns-the-single-matching-item')
        elif mode == 'merge':
            items2, datas2 = _mk_items(ex, n2, data_key, tag='j')
            globs2 = {'g': 2, 'h': 3} if ((n + n2) % 2 or n2 == 0) else None      # an item-less browser still carries its globals
            br2 = Browser(items2, data_key=data_key, global_vars=globs2)
            sn2 = _snap_browser(br2)
            mg = br.merge(br2)
            ok = isinstance(mg, Browser) and len(mg.content) == n + n2 and \
                all(c[data_key] is d for c, d in zip(mg.content, datas + datas2)) and \
                all((k in c) == (k in s) and (k not in s or c[k] is s[k])
                    for c, s in zip(mg.content, items + items2) for k in POOL)
            ex.check(ok, 'merge:concatenation')
            wg = dict(gl)
            wg.update(globs2 or {})
            ex.check(mg.globals == wg and mg.data_key == data_key, 'merge:globals-and-data-key')
            ex.check(_same_browser(br2, sn2), 'merge:right-browser-unchanged')
            # the merged browser answers queries like a browser built from the concatenation
            kw, inc, exc = _query(ex)
            sub = mg.filter_by(include=inc, exclude=exc, **kw)
            match = _naive([dict(it) for it in items + items2], kw, inc, exc)
            _check_sub(ex, sub, [dict(it) for it in items + items2], match, data_key, wg, 'merge-then-filter_by')
        elif mode == 'index':
            # the documented position key 'index' ("to keep track of the order of the list and being able to do selection on
            # it"): in EVERY browser -- built from a list, obtained from a filter, obtained from a merge -- a query on position k
            # returns exactly the k-th item of that browser, and the positions on offer are 0..len-1
            def positions_ok(b, want_items, lab):
                good = isinstance(b, Browser) and len(b.content) == len(want_items)
                if good:
                    good = tuple(sorted(b.available_values('index'))) == tuple(range(len(want_items)))
                    for k, w in enumerate(want_items):
                        if b.content[k].get('index') != k:
                            good = False
                        got = b.filter_by(index=k).content
                        if len(got) != 1 or got[0][data_key] is not w[data_key]:
                            good = False
                        try:
                            one = b.select_by(index=k)
                            if one[data_key] is not w[data_key]:
                                good = False
                        except (NoItemBrowserError, TooManyItemsBrowserError):
                            good = False
                    if len(b.filter_by(index=len(want_items)).content) != 0:
                        good = False
                ex.check(good, lab)
            positions_ok(br, src, 'index:positions-of-a-browser-built-from-a-list')
            kw, inc, exc = _query(ex)
            sub = br.filter_by(include=inc, exclude=exc, **kw)
            kept = [it for it, m in zip(src, _naive(src, kw, inc, exc)) if _decided(m)]
            positions_ok(sub, kept, 'index:positions-of-a-filtered-browser')
            items2, _d2 = _mk_items(ex, n2, data_key, tag='j')
            br2 = Browser(items2, data_key=data_key)
            positions_ok(sub.merge(br2), kept + items2, 'index:positions-of-a-merged-browser')
            positions_ok(br2.merge(sub), items2 + kept, 'index:positions-of-a-merged-browser-(filtered-operand-last)')
        elif mode == 'chain':
            kw, inc, exc = _query(ex, 'q')
            sub = br.filter_by(include=inc, exclude=exc, **kw)
            match = _naive(src, kw, inc, exc)
            kept = [it for it, m in zip(src, match) if _decided(m)]
            sn_sub = _snap_browser(sub) if hasattr(sub, 'content') else None
            kw2, inc2, exc2 = _query(ex, 'r')
            # the same query again on the original (a stale/corrupted index shows here) ...
            again = br.filter_by(include=inc, exclude=exc, **kw)
            _check_sub(ex, again, src, match, data_key, gl, 'repeat-filter_by')
            # ... and a second filter on the sub-browser
            sub2 = sub.filter_by(include=inc2, exclude=exc2, **kw2)
            match2 = _naive(kept, kw2, inc2, exc2)
            _check_sub(ex, sub2, kept, match2, data_key, gl, 'filter_by-of-filter_by')
            third = br.filter_by(include=inc2, exclude=exc2, **kw2)
            _check_sub(ex, third, src, _naive(src, kw2, inc2, exc2), data_key, gl, 'second-query-on-original')
            if sn_sub is not None:
                ex.check(_same_browser(sub, sn_sub), 'chain:sub-browser-unchanged')
        ex.check(_same_browser(br, sn), mode + ':original-browser-unchanged')
        ex.check(_same_inputs(items, sn_in), mode + ':input-dictionaries-unchanged')
    return harness


def _job(n, data_key, mode, timeout_ms, n2=1, pool='ab', incexc='full', globs_on=False, seed=0):
    return run_sym('x', make_harness(n, data_key, mode, n2, pool, incexc, globs_on), timeout_ms=timeout_ms, seed=seed, max_paths=600000,
                   require_checks=[mode + ':original-browser-unchanged'])


def jobs(tier):
    out = []
    t = 20000
    # (items, mode, key pool, include/exclude alphabet)
    if tier == 'quick':
        plan = [(0, 'keys', 'ab', 'full'), (2, 'keys', 'ab', 'full'), (3, 'keys', 'a', 'full'),
                (0, 'filter', 'ab', 'full'), (1, 'filter', 'ab', 'full'), (2, 'filter', 'ab', 'few'),
                (3, 'filter', 'a', 'few'), (0, 'select', 'ab', 'few'), (2, 'select', 'ab', 'few'),
                (3, 'select', 'a', 'few'), (1, 'merge', 'ab', 'few'), (2, 'merge', 'a', 'few'), (2, 'chain', 'a', 'few'),
                (10, 'long', 'a', 'few'), (0, 'merge0', 'a', 'few'), (1, 'merge0', 'a', 'few'),
                (2, 'filter', 'abc', 'none'), (2, 'select', 'abc', 'none'), (3, 'index', 'a', 'none')]
    else:
        plan = [(0, 'keys', 'ab', 'full'), (2, 'keys', 'ab', 'full'), (3, 'keys', 'ab', 'full'), (4, 'keys', 'a', 'full'),
                (0, 'filter', 'ab', 'full'), (1, 'filter', 'ab', 'full'), (2, 'filter', 'ab', 'full'),
                (3, 'filter', 'ab', 'few'), (3, 'filter', 'a', 'full'), (4, 'filter', 'a', 'few'),
                (0, 'select', 'ab', 'full'), (2, 'select', 'ab', 'full'), (3, 'select', 'ab', 'few'), (4, 'select', 'a', 'few'),
                (0, 'merge', 'ab', 'few'), (1, 'merge', 'ab', 'few'), (2, 'merge', 'ab', 'few'), (2, 'merge', 'a', 'few'),
                (3, 'merge', 'a', 'few'),
                (2, 'chain', 'ab', 'few'), (3, 'chain', 'a', 'few'), (10, 'long', 'a', 'few'), (13, 'long', 'a', 'few'),
                (0, 'merge0', 'a', 'few'), (1, 'merge0', 'ab', 'few'), (2, 'merge0', 'a', 'few'),
                (2, 'filter', 'abc', 'none'), (3, 'filter', 'abc', 'none'), (2, 'select', 'abc', 'none'),
                (3, 'index', 'a', 'none'), (3, 'index', 'ab', 'none')]
    for i, (n, mode0, pool, ie) in enumerate(plan):
        for dk in ('results', 'd'):
            mode = mode0
            n2 = 2 if (mode == 'merge' and n == 2 and tier == 'thorough' and pool == 'a') else 1
            if mode0 == 'merge0':
                mode, n2 = 'merge', 0
            if mode == 'long' and dk == 'd' and n > 10:
                continue
            out.append((f'{mode}{"0" if n2 == 0 else ""}-n{n}-{pool}-{ie}-{dk}', _job,
                        dict(n=n, data_key=dk, mode=mode, n2=n2, pool=pool, incexc=ie, globs_on=bool((i + (dk == 'd')) % 2),
                             timeout_ms=t)))
    return out


def replay(rp):
    for j in jobs('thorough') + jobs('quick'):
        if j[0] == rp['job']:
            p = j[2]
            return replay_sym(make_harness(p['n'], p['data_key'], p['mode'], p['n2'], p['pool'], p['incexc'], p['globs_on']), rp['inputs'])
    raise KeyError(rp['job'])
