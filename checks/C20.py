"""C20 -- a written report contains every section and every result exactly once.

Engine E1 (symrun).  The real Rst.format_report / FormattedRst.write run on report trees whose shape
(parent of each section), titles (from a pool that contains ordinary, dotted, repeated, reserved and
invalid names) and result placement are solver-chosen; pages are written into a real temporary
directory and read back.
"""
import os
import re
import shutil
import tempfile
from engine.runner import run_sym, replay_sym

PID = 'C20'
LEVEL = 'other'
TARGETS = ['valjean.javert.rst:Rst.format_report', 'valjean.javert.rst:Rst.format_report_rec',
           'valjean.javert.rst:Rst.format_section', 'valjean.javert.rst:Rst.format_result',
           'valjean.javert.rst:FormattedRst.write', 'valjean.javert.rst:FormattedRst._write_rec',
           'valjean.javert.rst:FormattedRst.tree_to_path', 'valjean.javert.rst:FormattedRst.toc',
           'valjean.path:sanitize_filename']
POOL = ['A', 'B', 'index', '', 'a/b', 'v1.0', 'v1.5', '..']
BOUNDS = {'quick': {'sections': '<= 3 below the root, any parent structure (depth <= 3)', 'titles': POOL,
                    'results': 'one per section + one on the root'},
          'thorough': {'sections': '<= 4 below the root (depth <= 4)', 'titles': POOL, 'results': 'one per section + one on the root'}}
ASSUMPTIONS = ['titles are drawn from a pool chosen by reading the code (ordinary, dotted, equal siblings, the reserved page name, empty, '
               'containing a slash, dot-dot); the solver chooses shape and titles',
               'results are stub TestResults (anchor + description); up to three of them (solver-chosen) carry a plot template, some of them the same plot; MplPlot.save is a stub that writes a small file; for trees of <= 1 section the figures are written sequentially or by a pool of 2 / 3 workers (solver-chosen; multiprocessing.pool.ThreadPool stands in for the process pool: same Pool.map code)',
               'sections with the same chain of titles share one page (their texts are concatenated): accepted as long as every result appears once',
               'optionally (solver-chosen) the same Rst object formats a second, unrelated report between formatting and writing the first',
               'optionally (solver-chosen, trees of <= 2 sections) the formatted report is first written to another directory; the second copy is the one checked',
               'a toctree entry is resolved relative to the directory of the page that contains it (Sphinx semantics)']
OUTSIDE = ['the content of figure files (matplotlib rendering)', "Sphinx's own interpretation of exotic titles", 'titles outside the pool']
EXPLANATION = ('bounded symbolic execution (symrun + z3: solver-chosen tree shapes and titles) of the real report writer on a temporary '
               'directory; written pages are read back and compared with the tree')


def _mk_result(tag):
    from valjean.gavroche.test import Test, TestResult

    class _T(Test):
        def evaluate(self):
            raise NotImplementedError

    class TestResultStub(TestResult):
        def __bool__(self):
            return True
    return TestResultStub(_T(name=f'test-{tag}', description=f'RESULT-TAG-{tag}-END'))


class _PlotRepresenter:
    """representer giving each stub result one plot; results whose tag is in `same` get the SAME plot (equal fingerprint)"""
    def __init__(self, with_plot, same):
        self.with_plot, self.same = with_plot, same

    def __call__(self, result, verbosity=None):
        import numpy as np
        from valjean.javert.templates import PlotTemplate, SubPlotElements, CurveElements
        tag = result.test.name
        if tag not in self.with_plot:
            return []
        k = 0 if tag in self.same else 1 + sorted(self.with_plot).index(tag)
        curve = CurveElements(values=np.array([1.0 + k, 2.0]), bins=[np.array([0.0, 1.0, 2.0])], legend='c')
        return [PlotTemplate(subplots=[SubPlotElements(curves=[curve], axnames=('x', 'y'))])]


def _valid(title):
    from valjean.path import sanitize_filename
    try:
        sanitize_filename(title)
    except ValueError:
        return False
    return True


def make_harness(k):
    def harness(ex):
        from valjean.javert.rst import Rst
        from valjean.javert.representation import Representation, EmptyRepresenter
        from valjean.javert.test_report import TestReport
        # shape: parent[i] in {-1 (root), 0..i-1}
        parents, titles = [], []
        for i in range(k):
            parents.append(ex.choice(i + 1, f'parent{i}') - 1)
            titles.append(POOL[ex.choice(len(POOL), f'title{i}')])
        ex.note('tree', list(zip(parents, titles)))
        children = {i: [j for j in range(k) if parents[j] == i] for i in range(-1, k)}

        def chain(i):
            return () if i < 0 else chain(parents[i]) + (titles[i],)

        def build(i):
            content = [_mk_result(f's{i}')] + [build(j) for j in children[i]]
            return TestReport(title=titles[i], text=f'text of section {i}', content=content)
        root = TestReport(title='ROOT-TITLE', text='root text', content=[_mk_result('root')] + [build(j) for j in children[-1]])
        base = tempfile.mkdtemp(prefix='verif_c20_')
        out = os.path.join(base, 'report')
        try:
            # figures: which results carry a plot, and which of them carry the very same plot, is solver-chosen;
            # MplPlot.save is a stub that writes a small file (matplotlib rendering is outside the claim)
            tags = ['test-root'] + [f'test-s{i}' for i in range(k)]
            if k <= 2:
                with_plot = {t for t in tags[:3] if ex.flag(f'plot-on-{t}')}
                same = {t for t in sorted(with_plot) if len(with_plot) > 1 and ex.flag(f'same-plot-{t}')}
            else:           # larger trees: one fixed arrangement (two results share a plot, a third has its own)
                with_plot = {'test-root', 'test-s0', f'test-s{k - 1}'}
                same = {'test-root', 'test-s0'}
            # plots written sequentially or by a pool of worker processes (n_workers option), small trees only
            n_workers = [None, 2, 3][ex.choice(3, 'n_workers')] if (with_plot and k <= 1) else None
            ex.note('n_workers', n_workers)
            rst = Rst(Representation(_PlotRepresenter(with_plot, same) if with_plot else EmptyRepresenter()), n_workers=n_workers)
            import valjean.javert.mpl as mplmod
            saved_save = mplmod.MplPlot.save
            mplmod.MplPlot.save = lambda self, name='fig.png': open(name, 'wb').write(b'PNG')
            # the check itself runs in a daemonic pool worker, which may not fork: the process pool of the report writer is
            # replaced by multiprocessing's thread pool (a subclass of the same Pool class: same map / chunking code)
            import types
            import multiprocessing.pool
            import valjean.javert.rst as rstmod
            saved_mp = rstmod.mp
            rstmod.mp = types.SimpleNamespace(Pool=multiprocessing.pool.ThreadPool)
            raised = None
            try:
                fmt = rst.format_report(report=root, author='me', version='0')
                if ex.choice(2, 'another-report-formatted-before-writing') == 1:
                    # the same Rst object formats another report before the first one is written
                    other = TestReport(title='OTHER-ROOT', text='other text', content=[
                        _mk_result('other'), TestReport(title='OTHER-SECTION', text='t', content=[_mk_result('other2')])])
                    rst.format_report(report=other, author='me', version='0')
                if k <= 2 and ex.choice(2, 'written-to-another-directory-first') == 1:
                    # the same formatted report is written twice; the directory checked below is the SECOND one
                    first = tempfile.mkdtemp(prefix='verif_c20_first_')
                    try:
                        fmt.write(os.path.join(first, 'report'))
                    finally:
                        shutil.rmtree(first, ignore_errors=True)
                fmt.write(out)
            except ValueError as e:
                raised = e
            pages = {}
            for dp, dn, fn in os.walk(base):
                for f in fn:
                    if f.endswith('.rst'):
                        p = os.path.join(dp, f)
                        pages[os.path.relpath(p, base)] = open(p).read()
            unusable = [t for t in titles if not _valid(t) or t == '']
            reserved = [i for i in range(k) if chain(i) == ('index',)]
            if unusable or reserved:
                ex.check(raised is not None, 'unusable-or-reserved-title-is-rejected')
                ex.check(not pages, 'nothing-is-written-when-a-title-is-rejected')
                return
            ex.check(raised is None, 'valid-report-is-written-without-error')
            if raised is not None:
                return
            want = {os.path.join('report', 'index.rst')}
            for i in range(k):
                want.add(os.path.join('report', *chain(i)) + '.rst')
            ex.check(set(pages) == want, 'one-page-per-section-at-the-path-of-its-titles-and-nothing-else')
            if set(pages) != want:
                return
            ex.check('ROOT-TITLE' in pages[os.path.join('report', 'index.rst')] and
                     'RESULT-TAG-root-END' in pages[os.path.join('report', 'index.rst')], 'root-page-is-the-root-section')
            good = True
            for i in list(range(k)) + [-1]:
                tag = f'RESULT-TAG-{"root" if i < 0 else "s%d" % i}-END'
                where = [p for p, txt in pages.items() if tag in txt]
                home = os.path.join('report', 'index.rst') if i < 0 else os.path.join('report', *chain(i)) + '.rst'
                if where != [home] or pages[home].count(tag) != 1:
                    good = False
            ex.check(good, 'every-result-exactly-once-on-the-page-of-its-section')
            ok_toc = True
            for p, txt in pages.items():
                m = re.search(r'\.\. toctree::\n(.*?)\n\n\n', txt + '\n\n\n', re.S)
                if not m:
                    continue
                entries = [ln.strip() for ln in m.group(1).splitlines() if ln.strip() and not ln.strip().startswith(':')]
                for e in entries:
                    target = os.path.normpath(os.path.join(os.path.dirname(p), e)) + '.rst'
                    if target not in pages:
                        ok_toc = False
            ex.check(ok_toc, 'every-toctree-entry-points-to-a-written-page')
            for i in range(-1, k):
                kids = {chain(j) for j in children[i]}
                home = os.path.join('report', 'index.rst') if i < 0 else os.path.join('report', *chain(i)) + '.rst'
                if kids:
                    ex.check('.. toctree::' in pages[home], 'sections-with-subsections-have-a-table-of-contents')
            # every referenced figure exists, nothing else is in figures/
            refs = set()
            for p, txt in pages.items():
                refs.update(re.findall(r'\.\. image:: /figures/(\S+)', txt))
            figdir = os.path.join(out, 'figures')
            have = set(os.listdir(figdir)) if os.path.isdir(figdir) else set()
            ex.check(refs <= have, 'every-referenced-figure-exists', detail=f'missing {sorted(refs - have)}')
            ex.check(have <= refs, 'no-figure-without-a-reference', detail=f'extra {sorted(have - refs)}')
            n_distinct = len(with_plot - same) + (1 if same else 0)
            ex.check(len(refs) == n_distinct, 'one-figure-per-distinct-plot', detail=f'{len(refs)} referenced, {n_distinct} distinct plots')
        finally:
            try:
                mplmod.MplPlot.save = saved_save
                rstmod.mp = saved_mp
            except NameError:
                pass
            shutil.rmtree(base, ignore_errors=True)
    return harness


def _job(k, timeout_ms, seed=0):
    return run_sym('x', make_harness(k), timeout_ms=timeout_ms, seed=seed, max_paths=2000000)


def jobs(tier):
    ks = (0, 1, 2, 3) if tier == 'quick' else (0, 1, 2, 3, 4)
    return [(f'k{k}', _job, dict(k=k, timeout_ms=20000)) for k in ks]


def replay(rp):
    return replay_sym(make_harness(int(rp['job'][1:])), rp['inputs'])
