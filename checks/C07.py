"""C07 -- chi-square verdict matches the chi-square law on the bins actually used.

Engine E1 (symrun).  The real TestChi2 / TestResultChi2 run on symbolic datasets; scipy's chi2 is a
LawStub (uninterpreted sf(x, k), strictly decreasing in x >= 0, NaN-propagating).  The zero-error
pattern is chosen by the solver (the mask is concretised by forking: 2^m patterns).
"""
import contextlib
import itertools
import numpy as np
from engine.runner import run_sym, replay_sym
from engine.symrun.arrays import sym_real_array, sym_real_scalar, SymArray, SymScalar, numpy_facade
from engine.symrun.stubs import LawStub, validate_law_axioms
from engine.symrun import core
from engine.symrun import oracle as O
from engine.symrun.oracle import cells

PID = 'C07'
LEVEL = 'other'
TARGETS = ['valjean.gavroche.stat_tests.chi2:TestChi2.__init__', 'valjean.gavroche.stat_tests.chi2:TestChi2._nonzero_bins',
           'valjean.gavroche.stat_tests.chi2:TestChi2.chi2_test', 'valjean.gavroche.stat_tests.chi2:TestChi2.pvalue',
           'valjean.gavroche.stat_tests.chi2:TestChi2.evaluate', 'valjean.gavroche.stat_tests.chi2:TestResultChi2.oracles',
           'valjean.gavroche.stat_tests.chi2:TestResultChi2.__bool__', 'valjean.eponine.dataset:Dataset.__sub__']
BOUNDS = {
    'quick': {'shapes': ['scalar(np.generic)', '(1,)', '(2,)', '(3,)', '(2,2)'], 'datasets_compared': '1; 2 for <= 2 bins',
              'ignore_empty': [False, True], 'alpha': 'symbolic real in (0,1)',
              'cells': 'option off: extended reals (finite, NaN, +-inf), errors >= 0, NaN or +inf; option on: finite values, finite errors >= 0 (any zero pattern)'},
    'thorough': {'shapes': ['scalar(np.generic)', '()', '(1,)', '(2,)', '(3,)', '(4,)', '(2,2)', '(1,3)', '(2,1,2)'],
                 'datasets_compared': '1; 2 for <= 3 bins; 3 for <= 2 bins', 'ignore_empty': [False, True],
                 'alpha': 'symbolic real in (0,1)',
                 'cells': 'option off: extended reals (finite, NaN, +-inf), errors >= 0, NaN or +inf; option on: finite values, finite errors >= 0 (any zero pattern)'},
}
ASSUMPTIONS = [
    'floats idealised as extended reals (exact arithmetic, IEEE special-value algebra, no rounding)',
    'scipy.stats.chi2.sf(x, k) replaced by an uninterpreted function: in [0,1], strictly decreasing in x >= 0 for equal k, sf(x<=0,k)=1, '
    'sf(NaN)=NaN, sf(+inf)=0, sf(x,0)=NaN (validated against real scipy at start-up); equal arguments give equal values',
    'sqrt(x): unique s>=0 with s*s=x',
    "the modules' np global is a facade identical to numpy except that lists of symbolic scalars are stacked without C-level coercion",
    'statistic = sum of per-bin terms is decided in two steps: per-bin lemma ((v1-v2)/sqrt(e1^2+e2^2))^2 == (v1-v2)^2/(e1^2+e2^2) (z3), '
    'then equality of the sums of the lemma left-hand sides; + being a congruence for identical extended reals is a meta-argument',
    'the mask of used bins is concretised by forking (every zero-error pattern is a separate path chosen by the solver)',
]
OUTSIDE = ['float rounding', "scipy's numerical accuracy", 'chi2_per_ndf', 'more than 4 bins']
EXPLANATION = ('bounded symbolic execution (symrun + z3 QF_NRA, uninterpreted chi-square law) of the real chi-square test; '
               'statistic, degrees of freedom, p-value and verdict decided per path')


@contextlib.contextmanager
def _env(ex):
    import valjean.gavroche.stat_tests.chi2 as c2
    import valjean.gavroche.test as vt
    import valjean.eponine.dataset as vd
    if not ex.symbolic:
        yield c2.schi2
        return
    law = LawStub(ex, 'chi2', symmetric=False)
    ex.count_mode = 'fork'
    old = c2.schi2
    c2.schi2 = law
    try:
        with numpy_facade(c2, vt, vd):
            yield law
    finally:
        c2.schi2 = old


def _term(v1, e1, v2, e2):
    d = v1 - v2
    return (d * d) / (e1 * e1 + e2 * e2)


def _mk(ex, name, shape, scalar, special_v, special_e):
    kv = {'special': True} if special_v else {}
    ke = {'special': True} if special_e else {}
    if scalar:
        return sym_real_scalar(ex, name + 'v', **kv), sym_real_scalar(ex, name + 'e', nonneg=True, **ke)
    return sym_real_array(ex, name + 'v', shape, **kv), sym_real_array(ex, name + 'e', shape, nonneg=True, **ke)


def _sf(law, x, k):
    r = law.sf(x, k)
    return cells(r)[0]


def make_harness(shape, scalar, nds, ignore_empty):
    def harness(ex):
        from valjean.eponine.dataset import Dataset
        from valjean.gavroche.stat_tests.chi2 import TestChi2
        with _env(ex) as law:
            alpha = ex.real('alpha')
            ex.assume(O.band(alpha > 0, alpha < 1))
            sp = not ignore_empty
            rv, re_ = _mk(ex, 'r', shape, scalar, True, sp)
            dsref = Dataset(rv, re_, name='ref')
            others = []
            for k in range(nds):
                v, e = _mk(ex, f'd{k}', shape, scalar, True, sp)
                others.append(Dataset(v, e, name=f'd{k}'))
            test = TestChi2(dsref, *others, name='c2', alpha=alpha, ignore_empty=ignore_empty)
            res = test.evaluate()
            ok = len(res.chi2) == nds and len(res.pvalue) == nds and len(test.ndf) == nds
            ex.check(ok, 'one-statistic-ndf-pvalue-per-dataset')
            if not ok:
                return
            pvals = []
            for k, ds in enumerate(others):
                used, stat = [], 0.0
                for a, ea, b, eb in zip(cells(rv), cells(re_), cells(ds.value), cells(ds.error)):
                    u = True if not ignore_empty else bool(O.bor(ea > 0, eb > 0))     # forks (already decided)
                    used.append(u)
                    if u:
                        # lemma per bin: ((v1-v2)/sqrt(e1^2+e2^2))^2, the shape computed by the code,
                        # equals the statement's (v1-v2)^2/(e1^2+e2^2) on extended reals
                        tq = (a - b) / O.sqrt(ea * ea + eb * eb)
                        tq = tq * tq
                        tm = _term(a, ea, b, eb)
                        ex.lemma(O.same(tq, tm) if ex.symbolic else (O.eq(tq, tm) or O.same(tq, tm)),
                                 'lemma:squared-ratio-equals-ratio-of-squares')
                        # the sum is compared on the lemma's left-hand sides (identical terms to the
                        # code's); statistic == sum of the statement's terms then follows because
                        # `same` is a congruence for + on extended reals
                        stat = stat + tq
                n_used = sum(used)
                ndf = test.ndf[k]
                ndf = cells(ndf)[0] if not isinstance(ndf, int) else ndf
                ex.check(O.eq(ndf, n_used) if O.is_sym(ndf) else int(ndf) == n_used, 'ndf-is-the-number-of-used-bins')
                got = cells(res.chi2[k])[0]
                ex.check(O.same(got, stat) if ex.symbolic else (O.eq(got, stat) or O.same(got, stat)),
                         'statistic-is-the-sum-over-used-bins')
                want_p = _sf(law, stat if O.is_sym(stat) or not ex.symbolic else float(stat), n_used)
                gp = cells(res.pvalue[k])[0]
                ex.check(O.same(gp, want_p) if ex.symbolic else (O.eq(gp, want_p) or O.same(gp, want_p)),
                         'pvalue-is-the-upper-tail-of-the-statistic')
                pvals.append(want_p)
            orc = res.oracles()
            oc = cells(orc)
            ok = len(oc) == nds
            ex.check(ok, 'oracles-shape')
            if ok:
                for o_, p in zip(oc, pvals):
                    ex.check(O.iff(o_, p > alpha), 'oracle-iff-pvalue-exceeds-alpha')
            verdict = bool(res)
            ex.check(O.iff(verdict, O.band(*[p > alpha for p in pvals])), 'verdict-iff-every-pvalue-exceeds-alpha')
            if not ignore_empty:
                for k in range(nds):
                    ex.check(O.implies(O.isnan(cells(res.chi2[k])[0]), not verdict),
                             'undefined-statistic-never-passes')
    return harness


def make_perm_twin(n, ignore_empty):
    def harness(ex):
        from valjean.eponine.dataset import Dataset
        from valjean.gavroche.stat_tests.chi2 import TestChi2
        with _env(ex):
            sp = not ignore_empty
            av, ae = _mk(ex, 'a', (n,), False, True, sp)
            bv, be = _mk(ex, 'b', (n,), False, True, sp)
            perm = list(itertools.permutations(range(n)))[ex.choice(_fact(n), 'bin-permutation')]

            def permuted(x):
                y = np.empty(n, dtype=object if ex.symbolic else float)
                c = cells(x)
                for i, j in enumerate(perm):
                    y[i] = c[j]
                return y.view(SymArray) if ex.symbolic else y
            r1 = TestChi2(Dataset(av, ae), Dataset(bv, be), name='t1', ignore_empty=ignore_empty).evaluate()
            r2 = TestChi2(Dataset(permuted(av), permuted(ae)), Dataset(permuted(bv), permuted(be)), name='t2',
                          ignore_empty=ignore_empty).evaluate()
            s1, s2 = cells(r1.chi2[0])[0], cells(r2.chi2[0])[0]
            ex.check(O.same(s1, s2) if ex.symbolic else (O.eq(s1, s2) or O.same(s1, s2)),
                     'statistic-independent-of-bin-order')
            n1, n2 = r1.test.ndf[0], r2.test.ndf[0]
            ex.check(int(n1) == int(n2), 'ndf-independent-of-bin-order')
    return harness


def _fact(n):
    r = 1
    for i in range(2, n + 1):
        r *= i
    return r


def _job(kind, timeout_ms, seed=0, **p):
    validate_law_axioms()
    if kind == 'perm':
        return run_sym('x', make_perm_twin(p['n'], p['ignore_empty']), timeout_ms=timeout_ms, seed=seed, logic='QF_NRA')
    return run_sym('x', make_harness(p['shape'], p['scalar'], p['nds'], p['ignore_empty']), timeout_ms=timeout_ms,
                   seed=seed, logic='QF_NRA', require_checks=['verdict-iff-every-pvalue-exceeds-alpha'])


def float_harness(ex):
    """float level (outside the real-number model): integer-typed datasets whose differences are large (squares must not wrap), and
    errors so small that their squares underflow (a bin with a non-zero error on either side is a USED bin).  Concrete inputs from
    pools; reference values computed in exact rational arithmetic"""
    from fractions import Fraction
    import scipy.stats as sst
    from valjean.eponine.dataset import Dataset
    from valjean.gavroche.stat_tests.chi2 import TestChi2
    dtype = [np.float64, np.int64, np.int32, np.int16, np.float32][ex.choice(5, 'dtype')]
    scale = [1, 200, 50000][ex.choice(3, 'size-of-the-differences')]
    tiny = [None, 1e-182, 1e-170, 5e-324][ex.choice(4, 'tiny-errors-in-the-first-bin')]
    ie = bool(ex.flag('ignore-empty'))
    if dtype == np.int16 and scale > 200:
        return
    v1 = np.array([3, 1, 2], dtype=dtype) * dtype(scale)
    v2 = np.array([1, 1, 5], dtype=dtype) * dtype(scale)
    e1 = np.array([1.0, 0.0, 0.5]) * scale
    e2 = np.array([0.5, 0.0, 2.0]) * scale
    if tiny is not None:
        e1[0] = tiny
        e2[0] = tiny if ex.flag('both-errors-tiny') else 0.0
    with np.errstate(all='ignore'):
        res = TestChi2(Dataset(v1.copy(), e1.copy(), name='a'), Dataset(v2.copy(), e2.copy(), name='b'), name='c', alpha=0.01,
                       ignore_empty=ie).evaluate()
    used = [bool(a > 0 or b > 0) for a, b in zip(e1, e2)] if ie else [True] * 3
    ex.check(int(np.asarray(res.test.ndf).reshape(-1)[0]) == sum(used), 'float:ndf-is-the-number-of-used-bins',
             detail=f'ndf={res.test.ndf} used={used}')
    if tiny is None and ie:
        # exact reference (no tiny errors: every quantity is comfortably inside the double range)
        want = sum(Fraction(int(a) - int(b)) ** 2 / (Fraction(float(x)) ** 2 + Fraction(float(y)) ** 2)
                   for a, b, x, y, u in zip(v1, v2, e1, e2, used) if u)
        got = float(np.asarray(res.chi2).reshape(-1)[0])
        ex.check(abs(got - float(want)) <= 1e-6 * float(want), 'float:statistic-is-the-sum-over-used-bins', detail=f'{got} instead of {float(want)}')
        p = float(sst.chi2.sf(float(want), sum(used)))
        ex.check(bool(res) == (p > 0.01), 'float:verdict-iff-every-probability-exceeds-the-level', detail=f'p={p} verdict={bool(res)}')


def _job_float(timeout_ms, seed=0):
    return run_sym('x', float_harness, timeout_ms=timeout_ms, seed=seed, require_checks=['float:ndf-is-the-number-of-used-bins'])


def jobs(tier):
    out = [('float-level', _job_float, dict(timeout_ms=30000))]
    t = 30000 if tier == 'quick' else 300000
    b = BOUNDS[tier]
    for s in b['shapes']:
        scalar = s.startswith('scalar')
        shape = () if scalar else eval(s)
        m = int(np.prod(shape, dtype=int))
        for nds in (1, 2, 3):
            if tier == 'quick' and (nds == 3 or (nds == 2 and m > 2)):
                continue
            if tier == 'thorough' and ((nds == 2 and m > 3) or (nds == 3 and m > 2)):
                continue
            for ie in (False, True):
                out.append((f'main-{"scalar" if scalar else shape}-n{nds}-ie{int(ie)}', _job,
                            dict(kind='main', shape=shape, scalar=scalar, nds=nds, ignore_empty=ie, timeout_ms=t)))
    for n in ((2, 3) if tier == 'quick' else (2, 3, 4)):
        for ie in (False, True):
            out.append((f'perm-{n}-ie{int(ie)}', _job, dict(kind='perm', n=n, ignore_empty=ie, timeout_ms=t)))
    return out


def replay(rp):
    if rp['job'] == 'float-level':
        return replay_sym(float_harness, rp['inputs'])
    for j in jobs('thorough') + jobs('quick'):
        if j[0] == rp['job']:
            p = dict(j[2])
            if p['kind'] == 'perm':
                h = make_perm_twin(p['n'], p['ignore_empty'])
            else:
                h = make_harness(p['shape'], p['scalar'], p['nds'], p['ignore_empty'])
            return replay_sym(h, rp['inputs'])
    raise KeyError(rp['job'])
