"""C11 -- a truncated Tripoli-4 listing gives a parser error or the last complete edition.

Engine E1 (symrun): the cut point is a symbolic integer; the real Scanner / Parser run on the real
shipped listing truncated at that byte.  Reading a file needs a concrete prefix, so the solver
enumerates the cut points of the stated range (every byte of the small parallel-mode listing; every
byte of every line the scanner interprets in two sequential-mode listings): bounded-exhaustive over
crash points, one path per offset.  Allowed outcomes: success or the parser's own exception type;
when an edition parses, its results equal those of the same edition of the complete listing.
"""
import os
import re
import shutil
import tempfile
import numpy as np
from engine.runner import run_sym, replay_sym

PID = 'C11'
LEVEL = 'other'
TARGETS = ['valjean.eponine.tripoli4.scan:Scanner.__init__', 'valjean.eponine.tripoli4.scan:Scanner._get_collres',
           'valjean.eponine.tripoli4.scan:Scanner._check_input_data', 'valjean.eponine.tripoli4.scan:Scanner._add_time',
           'valjean.eponine.tripoli4.scan:Scanner._is_end_flag', 'valjean.eponine.tripoli4.scan:Scanner._set_counters_and_flags',
           'valjean.eponine.tripoli4.scan:BatchResultScanner.build_result',
           'valjean.eponine.tripoli4.scan:BatchResultScanner._set_greater_batch_number',
           'valjean.eponine.tripoli4.parse:Parser.__init__', 'valjean.eponine.tripoli4.parse:Parser._scan',
           'valjean.eponine.tripoli4.parse:Parser._check_scan', 'valjean.eponine.tripoli4.parse:Parser.parse_from_index',
           'valjean.eponine.tripoli4.parse:Parser._parse_listing_worker', 'valjean.eponine.tripoli4.parse:Parser._time_consistency']
DATA = os.environ.get('VERIF_TREE', '/repo') + '/tests/eponine/tripoli4/data'
LISTINGS = {'para': 'ttsSimplePacket20.d.PARA.res.ceav5', 'green': 'greenband_exploit_T410_contrib.d.res.ceav5',
            'pertu': 'pertu_covariances.d.res.ceav5', 'mono': 'ttsSimplePacket20.d.res.ceav5'}
KEYWORDS = ['BATCH', 'number of tasks is', 'BATCH_PER_SIMULATOR', 'PACKET_LENGTH', 'initialization time', 'batch number :',
            'Edition after batch number', 'number of batches used', 'simulation time', 'exploitation time', 'elapsed time',
            'RESULTS ARE GIVEN', 'NORMAL COMPLETION', 'WARNING', 'ERROR', 'random generator']
BOUNDS = {'quick': {'listings': 'ttsSimplePacket20.d.PARA (8.4 kB, parallel mode): EVERY byte offset (scan + Parser()); '
                                'greenband / pertu_covariances / ttsSimplePacket20 (sequential): every byte of every line containing a scanner keyword and of the line after it',
                    'parse of editions': 'last complete edition parsed and compared at every 16th offset of the PARA listing',
                    'same path': 'one path rewritten with three states of the PARA listing (complete, two cuts) in every order, modification time free or forced equal'},
          'thorough': {'listings': 'as quick', 'parse of editions': 'last complete edition parsed and compared at every 4th offset of the PARA listing and at the key-line offsets of the others'}}
ASSUMPTIONS = ['results of an edition = the parsed responses and batch data, without the file-level run data (file name, NORMAL COMPLETION flag) and the wall-clock timings',
               'prefixes of four shipped listings (one parallel-mode, three sequential-mode); synthetic listings are outside',
               'the cut point is solver-chosen; reading a file concretises it (one path per offset of the stated range)',
               'per-path wall-clock limit of 60 s stands for "never hangs"']
OUTSIDE = ['what the pyparsing grammar does on blocks that the scanner does not deliver (the scanner only hands over complete editions)',
           'listings other than the four used', 'concurrent parsing (only: a parse from a second thread after a refused block comes back)']
EXPLANATION = ('bounded-exhaustive symbolic execution (symrun + z3 enumerating the symbolic cut offset) of the real Scanner/Parser on truncated '
               'shipped listings; exception types and per-edition results compared with the complete listing')

_CACHE = {}


def _complete(name):
    """results of every edition of the complete listing (computed once per process)"""
    if name not in _CACHE:
        from valjean.eponine.tripoli4.parse import Parser
        path = os.path.join(DATA, LISTINGS[name])
        p = Parser(path)
        res = {}
        for i, bn in enumerate(p.batch_numbers()):
            res[bn] = p.parse_from_index(i).res
        _CACHE[name] = (open(path, 'rb').read(), res)
    return _CACHE[name]


def key_offsets(data):
    """byte offsets inside the lines the scanner interprets"""
    offs = set()
    pos = 0
    follow = False
    for line in data.split(b'\n'):
        txt = line.decode('utf-8', 'ignore')
        hit = any(k in txt for k in KEYWORDS)
        if hit or follow:            # the key line itself and the line after it (the scanner reads ahead)
            offs.update(range(pos, pos + len(line) + 2))
        follow = hit
        pos += len(line) + 1
    return sorted(o for o in offs if o <= len(data))


def deep_equal(a, b):
    if isinstance(a, dict) and isinstance(b, dict):
        return a.keys() == b.keys() and all(deep_equal(a[k], b[k]) for k in a)
    if isinstance(a, (list, tuple)) and isinstance(b, (list, tuple)):
        return len(a) == len(b) and all(deep_equal(x, y) for x, y in zip(a, b))
    if isinstance(a, np.ndarray) or isinstance(b, np.ndarray):
        try:
            a, b = np.asarray(a), np.asarray(b)
            if a.shape != b.shape or a.dtype != b.dtype:
                return False
            if a.dtype.names:
                return all(deep_equal(a[n], b[n]) for n in a.dtype.names)
            return bool(np.array_equal(a, b, equal_nan=True)) if a.dtype.kind == 'f' else bool(np.array_equal(a, b))
        except Exception:      # noqa
            return False
    if isinstance(a, (float, np.floating)) and isinstance(b, (float, np.floating)) and np.isnan(a) and np.isnan(b):
        return True          # a 'not converged' scalar is NaN in both
    if hasattr(a, '__dict__') and hasattr(b, '__dict__') and type(a) is type(b):
        return deep_equal(vars(a), vars(b))
    try:
        return bool(a == b)
    except Exception:      # noqa
        return False


def _edition(res):
    """the results of an edition: everything but the file-level run data (file name, normal-completion flag)
    and the wall-clock timings printed after the results"""
    if not isinstance(res, dict):
        return res
    out = {k: v for k, v in res.items() if k != 'run_data'}
    if isinstance(out.get('batch_data'), dict):
        out['batch_data'] = {k: v for k, v in out['batch_data'].items() if 'time' not in k}
    return out


def make_harness(name, lo, hi, offsets, parse_every):
    def harness(ex):
        from valjean.eponine.tripoli4.scan import Scanner, ScannerException
        from valjean.eponine.tripoli4.parse import Parser, ParserException
        data, full = _complete(name)
        if offsets is None:
            cut = ex.int('cut', lo, hi)
            k = int(cut)
        else:
            idx = ex.int('cut-index', lo, hi)
            k = offsets[int(idx)]
        ex.note('cut', k)
        tmp = tempfile.mkdtemp(prefix='verif_c11_')
        path = os.path.join(tmp, 'listing.res')
        try:
            with open(path, 'wb') as f:
                f.write(data[:k])
            try:
                Scanner(path)
                sc = 'ok'
            except ScannerException:
                sc = 'own'
            except Exception as e:      # noqa
                sc = f'{type(e).__name__}: {e}'
            ex.check(sc in ('ok', 'own'), 'scanner-raises-only-its-own-exception', detail=sc)
            try:
                p = Parser(path)
                pa = 'ok'
            except ParserException:
                pa = 'own'
            except Exception as e:      # noqa
                pa = f'{type(e).__name__}: {e}'
            ex.check(pa in ('ok', 'own'), 'opening-raises-only-the-parser-exception', detail=pa)
            near_end_flag = any(f in data[max(0, data.rfind(b'\n', 0, k)):k + 1] for f in (b'simulation time', b'exploitation time', b'elapsed time'))
            if pa == 'ok' and ((parse_every and k % parse_every == 0) or near_end_flag):
                bns = p.batch_numbers()
                ex.check(all(bn in full for bn in bns), 'editions-of-the-truncated-listing-exist-in-the-complete-one', detail=str(bns))
                if bns:
                    try:
                        r = p.parse_from_index(-1).res
                        ok = deep_equal(_edition(r), _edition(full.get(bns[-1])))
                        ex.check(ok, 'parsed-edition-equals-the-same-edition-of-the-complete-listing', detail=f'batch {bns[-1]}')
                    except ParserException:
                        # "whatever was parsed earlier in the same process": after a refused block, a parse
                        # from ANOTHER thread must still come back (no lock left behind)
                        import threading
                        box = {}

                        def other():
                            try:
                                q = Parser(os.path.join(DATA, LISTINGS[name]))
                                box['n'] = len(q.parse_from_index(0).res)
                            except Exception as e2:      # noqa
                                box['exc'] = repr(e2)
                        th = threading.Thread(target=other, daemon=True)
                        th.start()
                        th.join(30)
                        ex.check(not th.is_alive(), 'a-refused-block-does-not-make-later-parsing-hang', detail=f'cut {k}')
                    except Exception as e:      # noqa
                        ex.check(False, 'parsing-raises-only-the-parser-exception', detail=f'{type(e).__name__}: {e}')
        finally:
            shutil.rmtree(tmp, ignore_errors=True)
    return harness


def _outcome(path):
    from valjean.eponine.tripoli4.parse import Parser, ParserException
    try:
        p = Parser(path)
        bns = list(p.batch_numbers())
        last = _edition(p.parse_from_index(-1).res) if bns else None
        return ('ok', bns, last)
    except ParserException:
        return ('own', None, None)
    except Exception as e:      # noqa
        return (f'{type(e).__name__}: {e}', None, None)


def make_same_path_harness(name):
    """"whatever was parsed earlier in the same process": ONE path is rewritten with successive states of a listing (complete, cut
    inside a late edition, cut inside an early one, in a solver-chosen order -- a job killed and started again), its modification time
    left alone or forced to the same second; after every rewrite the outcome (error kind, editions on offer, last edition) is the one the
    same bytes give under a path never seen before"""
    def harness(ex):
        import itertools
        data, _full = _complete(name)
        cuts = [len(data), int(len(data) * 0.85), int(len(data) * 0.3), int(len(data) * 0.6)]
        order = list(itertools.permutations(range(3)))[ex.choice(6, 'order-of-the-three-states')]
        third = ex.choice(2, 'middle-state')          # 85 % / 60 %
        same_second = ex.choice(2, 'modification-time-forced-to-the-same-second')
        states = [cuts[0], cuts[1] if third == 0 else cuts[3], cuts[2]]
        tmp = tempfile.mkdtemp(prefix='verif_c11s_')
        try:
            fresh = []
            for i, k in enumerate(states):
                pth = os.path.join(tmp, f'fresh{i}.res')
                with open(pth, 'wb') as f:
                    f.write(data[:k])
                fresh.append(_outcome(pth))
            ex.check(all(o[0] in ('ok', 'own') for o in fresh), 'opening-raises-only-the-parser-exception', detail=str([o[0] for o in fresh]))
            path = os.path.join(tmp, 'listing.res')
            good = True
            why = ''
            for i in order:
                with open(path, 'wb') as f:
                    f.write(data[:states[i]])
                if same_second:
                    os.utime(path, (1_600_000_000, 1_600_000_000))
                got = _outcome(path)
                if got[0] != fresh[i][0] or got[1] != fresh[i][1] or not deep_equal(got[2], fresh[i][2]):
                    good = False
                    why = f'state cut at {states[i]}: {got[0]} {got[1]} instead of {fresh[i][0]} {fresh[i][1]}'
            ex.check(good, 'outcome-does-not-depend-on-what-was-parsed-before-at-the-same-path', detail=why)
        finally:
            shutil.rmtree(tmp, ignore_errors=True)
    return harness


def _job_same_path(name, timeout_ms, seed=0):
    return run_sym('x', make_same_path_harness(name), timeout_ms=timeout_ms, seed=seed,
                   require_checks=['outcome-does-not-depend-on-what-was-parsed-before-at-the-same-path'])


def _job(name, lo, hi, use_keys, parse_every, timeout_ms, seed=0):
    offsets = None
    if use_keys:
        data, _ = _complete(name)
        offsets = key_offsets(data)
        hi = min(hi, len(offsets) - 1)
        if lo > hi:
            from engine.runner import JobResult
            r = JobResult('empty')
            r.stats = {'paths': 0, 'solver_queries': 0}
            return r
    return run_sym('x', make_harness(name, lo, hi, offsets, parse_every), timeout_ms=timeout_ms, seed=seed, max_paths=3000000)


def jobs(tier):
    out = []
    size = os.path.getsize(os.path.join(DATA, LISTINGS['para']))
    nsh = 8
    step = size // nsh + 1
    pe = 16 if tier == 'quick' else 4
    for s in range(nsh):
        out.append((f'para-bytes-{s}', _job, dict(name='para', lo=s * step, hi=min(size, (s + 1) * step - 1), use_keys=False,
                                                 parse_every=pe, timeout_ms=20000)))
    for name in ('green', 'pertu', 'mono'):
        nkeys = len(key_offsets(open(os.path.join(DATA, LISTINGS[name]), 'rb').read()))
        per = 700
        for s in range((nkeys + per - 1) // per):          # EVERY key-line offset (shards of 700)
            out.append((f'{name}-keylines-{s}', _job, dict(name=name, lo=s * per, hi=s * per + per - 1, use_keys=True,
                                                          parse_every=(0 if tier == 'quick' else 64), timeout_ms=20000)))
    for name in (('para',) if tier == 'quick' else ('para', 'mono')):
        out.append((f'{name}-same-path-rewritten', _job_same_path, dict(name=name, timeout_ms=20000)))
    return out


def replay(rp):
    for j in jobs('thorough') + jobs('quick'):
        if j[0] == rp['job']:
            p = j[2]
            if 'same-path' in j[0]:
                return replay_sym(make_same_path_harness(p['name']), rp['inputs'])
            offsets = key_offsets(_complete(p['name'])[0]) if p['use_keys'] else None
            return replay_sym(make_harness(p['name'], p['lo'], p['hi'], offsets, p['parse_every']), rp['inputs'])
    raise KeyError(rp['job'])
