"""C05 -- Student test verdict is true exactly when every bin is statistically compatible.

Engine E1 (symrun).  The real TestStudent / TestResultStudent code runs on symbolic datasets
(extended reals: finite, NaN, +-inf), symbolic alpha in (0,1) and symbolic ndf >= 1 (or None);
scipy's norm / t are replaced by LawStub (uninterpreted sf/ppf with the laws' qualitative
contract).  The oracle is the statement's formula written by cases on extended reals.
"""
from collections import OrderedDict
import contextlib
import numpy as np
from engine.runner import run_sym, replay_sym
from engine.symrun.arrays import sym_real_array, sym_real_scalar, SymArray, SymScalar, numpy_facade
from engine.symrun.stubs import LawStub, Opaque, validate_law_axioms
from engine.symrun import oracle as O
from engine.symrun.oracle import cells

PID = 'C05'
NDF_VALUES = [1, 2, 20]
LEVEL = 'other'
TARGETS = ['valjean.gavroche.stat_tests.student:TestStudent.__init__',
           'valjean.gavroche.stat_tests.student:TestStudent.evaluate',
           'valjean.gavroche.stat_tests.student:TestStudent.student_test',
           'valjean.gavroche.stat_tests.student:TestStudent.pvalue',
           'valjean.gavroche.stat_tests.student:TestStudent.student_threshold',
           'valjean.gavroche.stat_tests.student:TestResultStudent.test_alpha',
           'valjean.gavroche.stat_tests.student:TestResultStudent.oracles',
           'valjean.gavroche.stat_tests.student:TestResultStudent.__bool__',
           'valjean.gavroche.stat_tests.student:TestResultStudent.test_pvalue',
           'valjean.gavroche.test:check_bins', 'valjean.eponine.dataset:Dataset.__sub__']
BOUNDS = {
    'quick': {'float-level job': 'concrete alpha in {1e-2 ... 1e-300}, t in {0.5 ... 50} sigmas, ndf none / 3 / 1000, scalar or array datasets: verdict vs an independent accurate critical value and vs the p-value decision (what the extended-real model cannot see)',
              'shapes': ['scalar(np.generic)', '()', '(1,)', '(2,)', '(2,2)'], 'datasets_compared': [1, 2],
              'ndf': ['None', 'opaque (any value; code may only pass it to the law functions); replay values 1, 2, 20'], 'alpha': 'symbolic real in (0,1)',
              'cells': 'extended reals: finite of either sign, NaN, +inf, -inf; errors >= 0, NaN or +inf',
              'relational_twins': ['symmetry', 'rescaling', 'monotonicity'], 'twin_shapes': ['scalar', '(2,)']},
    'thorough': {'shapes': ['scalar(np.generic)', '()', '(1,)', '(2,)', '(3,)', '(2,2)', '(1,2,1)', '(4,)'],
                 'datasets_compared': [1, 2, 3], 'ndf': ['None', 'opaque (any value; code may only pass it to the law functions); replay values 1, 2, 20'],
                 'alpha': 'symbolic real in (0,1)',
                 'cells': 'extended reals: finite of either sign, NaN, +inf, -inf; errors >= 0, NaN or +inf',
                 'relational_twins': ['symmetry', 'rescaling', 'monotonicity'],
                 'twin_shapes': ['scalar', '(2,)', '(3,)', '(2,2)']},
}
ASSUMPTIONS = [
    'floats idealised as extended reals (exact arithmetic on finite values, IEEE special-value algebra, no rounding/overflow, zero unsigned)',
    'scipy.stats.norm / t replaced by uninterpreted sf/ppf constrained at the applied points: values in [0,1], strictly decreasing, '
    'sf(-x)=1-sf(x), sf(0)=1/2, sf(ppf(q))=1-q, sf(NaN)=NaN, sf(+inf)=0, sf(-inf)=1 (axioms validated against real scipy at start-up)',
    'sqrt(x): unique s>=0 with s*s=x',
    "the modules' np global is a facade identical to numpy except that lists of symbolic scalars are stacked into a SymArray before numpy's C-level coercion",
    'numpy scalars (np.generic) are modelled by SymScalar, a np.float64 subclass carrying the symbolic value',
    'counterexamples are made consistent with the real law (quantiles pinned to scipy values, re-solved) and replayed in float64',
    'a pair of NaN values in a bin counts as compatible; 0/0 counts as compatible; NaN errors on both sides with equal values count as compatible (documented mapping to t=0); any other undefined comparison fails',
]
OUTSIDE = ['float rounding at the threshold', "scipy's numerical accuracy", 'more than 4 bins / rank > 3',
           "test_pvalue() for ndf=None (documented as 'not available')"]
EXPLANATION = ('bounded symbolic execution (symrun+z3 QF_NRA with uninterpreted law stubs) of the real Student test; '
               'verdict, oracles and p-value decision are compared with the statement formula on every path')


@contextlib.contextmanager
def _stub_laws(ex):
    import valjean.gavroche.stat_tests.student as st
    if not ex.symbolic:
        yield None
        return
    from scipy.stats import norm as rnorm, t as rt
    n, t = LawStub(ex, 'norm'), LawStub(ex, 't')
    ex.refiners.append(lambda m: n.pins(m, rnorm))
    ex.refiners.append(lambda m: t.pins(m, rt))
    import valjean.gavroche.test as vt
    import valjean.eponine.dataset as vd
    old = st.norm, st.t
    st.norm, st.t = n, t
    try:
        with numpy_facade(st, vt, vd):
            yield (n, t)
    finally:
        st.norm, st.t = old


def bin_oracle(v1, e1, v2, e2, thr):
    """the statement's per-bin formula, by cases on extended reals (works on proxies and floats)"""
    both_nan = O.band(O.isnan(v1), O.isnan(v2))
    one_nan = O.bor(O.isnan(v1), O.isnan(v2))
    d = v1 - v2
    s2 = e1 * e1 + e2 * e2
    e_nan_both = O.band(O.isnan(e1), O.isnan(e2))
    e_nan_any = O.bor(O.isnan(e1), O.isnan(e2))
    d_zero = O.eq(d, 0)
    s2_inf = O.band(O.bnot(e_nan_any), O.isinf(s2))
    zero_case = O.band(d_zero, O.bor(O.eq(s2, 0), e_nan_both))
    fin_case = O.band(O.isfinite(d), O.isfinite(s2), s2 > 0, d * d < thr * thr * s2)
    inf_err_case = O.band(O.isfinite(d), s2_inf)
    return O.bor(both_nan, O.band(O.bnot(one_nan), O.bor(zero_case, fin_case, inf_err_case)))


def _mk(ex, name, shape, scalar, finite=False):
    kw = {} if finite else {'special': True}
    if scalar:
        return sym_real_scalar(ex, name + 'v', **kw), sym_real_scalar(ex, name + 'e', nonneg=True, **kw)
    return sym_real_array(ex, name + 'v', shape, **kw), sym_real_array(ex, name + 'e', shape, nonneg=True, **kw)


def _alpha_ndf(ex, with_ndf):
    alpha = ex.real('alpha')
    ex.assume(O.band(alpha > 0, alpha < 1))
    ndf = None
    if with_ndf:
        # the code only hands ndf to the law functions: an opaque token in symbolic mode (any use
        # other than passing it on is reported as unsupported); the concrete value serves the replay
        val = NDF_VALUES[ex.choice(len(NDF_VALUES), 'ndf')]
        ndf = Opaque(val) if ex.symbolic else val
    return alpha, ndf


def _thr(res):
    t = res.test.threshold
    return cells(t)[0]


def make_harness(shape, scalar, nds, with_ndf):
    def harness(ex):
        from valjean.eponine.dataset import Dataset
        from valjean.gavroche.stat_tests.student import TestStudent
        with _stub_laws(ex):
            alpha, ndf = _alpha_ndf(ex, with_ndf)
            rv, re_ = _mk(ex, 'r', shape, scalar)
            dsref = Dataset(rv, re_, name='ref')
            others = []
            for k in range(nds):
                v, e = _mk(ex, f'd{k}', shape, scalar)
                others.append(Dataset(v, e, name=f'd{k}'))
            test = TestStudent(dsref, *others, name='st', alpha=alpha, ndf=ndf)
            res = test.evaluate()
            thr = _thr(res)
            ex.check(O.band(O.isfinite(thr), thr > 0), 'threshold-finite-positive')
            per_ds = []
            for ds in others:
                per_ds.append([bin_oracle(a, ea, b, eb, thr) for a, ea, b, eb in
                               zip(cells(rv), cells(re_), cells(ds.value), cells(ds.error))])
            flat = [x for row in per_ds for x in row]
            # (b) oracles() position by position
            orc = res.oracles()
            oc = cells(orc) if isinstance(orc, np.ndarray) else [orc]
            ok = len(oc) == len(flat) and (scalar or np.shape(orc) == (nds,) + tuple(shape))
            ex.check(ok, 'oracles-shape')
            ok_orc = ok
            if ok:
                for a, b in zip(oc, flat):
                    ex.check(O.iff(a, b), 'oracles-equal-per-bin-formula')
            # (c) p-value decision
            ok = len(res.pvalue) == nds
            ex.check(ok, 'pvalue-one-per-dataset')
            if ok:
                pc = [c for p in res.pvalue for c in cells(p)]
                ok = len(pc) == len(flat)
                ex.check(ok, 'pvalue-shape')
                if ok:
                    for p, b in zip(pc, flat):
                        ex.check(O.iff(p > alpha, b), 'pvalue-decision-equals-per-bin-formula')
            if with_ndf:
                tp = res.test_pvalue()
                tc = [c for p in tp for c in (cells(p) if isinstance(p, np.ndarray) else [p])]
                ok = len(tc) == len(flat)
                ex.check(ok, 'test_pvalue-shape')
                if ok:
                    for a, b in zip(tc, flat):
                        ex.check(O.iff(a, b), 'test_pvalue-equals-per-bin-formula')
            # (a) verdict -- evaluated last: bool() forks
            verdict = bool(res)
            if ok_orc and len(flat) > 3:
                # decomposed: oracles()[i] <=> formula(i) was decided bin by bin above; what is left is
                # verdict <=> all(oracles()), which keeps the query small for many bins
                ex.check(O.iff(verdict, O.band(*oc)), 'verdict-iff-every-bin-compatible')
            else:
                ex.check(O.iff(verdict, O.band(*flat)), 'verdict-iff-every-bin-compatible')
    return harness


def make_twin(shape, scalar, with_ndf, kind):
    """relational properties: two executions of the real test inside one query"""
    def harness(ex):
        from valjean.eponine.dataset import Dataset
        from valjean.gavroche.stat_tests.student import TestStudent
        with _stub_laws(ex):
            alpha, ndf = _alpha_ndf(ex, with_ndf)
            finite = kind != 'symmetry'
            av, ae = _mk(ex, 'a', shape, scalar, finite)
            bv, be = _mk(ex, 'b', shape, scalar, finite)
            r1 = TestStudent(Dataset(av, ae), Dataset(bv, be), name='t1', alpha=alpha, ndf=ndf).evaluate()
            if kind == 'symmetry':
                r2 = TestStudent(Dataset(bv, be), Dataset(av, ae), name='t2', alpha=alpha, ndf=ndf).evaluate()
                v1, v2 = bool(r1), bool(r2)
                ex.check(v1 == v2, 'verdict-symmetric-in-the-two-datasets')
            elif kind == 'rescaling':
                c = ex.real('c', pos=True)
                r2 = TestStudent(Dataset(av * c, ae * c), Dataset(bv * c, be * c), name='t2', alpha=alpha,
                                 ndf=ndf).evaluate()
                v1, v2 = bool(r1), bool(r2)
                ex.check(v1 == v2, 'verdict-invariant-under-common-positive-rescaling')
            else:
                # same reference; second dataset further away (same side) and errors not larger
                cv, ce = _mk(ex, 'c', shape, scalar, True)
                dv, de = _mk(ex, 'd', shape, scalar, True)
                conds = []
                for a, b, c2, ea, eb, ec, ed in zip(cells(av), cells(bv), cells(cv), cells(ae), cells(be),
                                                    cells(ce), cells(de)):
                    conds.append(O.band(abs(a - c2) >= abs(a - b), ec <= ea, ed <= eb))
                ex.assume(O.band(*conds))
                r2 = TestStudent(Dataset(av, ce), Dataset(cv, de), name='t2', alpha=alpha, ndf=ndf).evaluate()
                v1, v2 = bool(r1), bool(r2)
                ex.check((not v2) or v1, 'verdict-never-improves-when-difference-grows-or-error-shrinks')
    return harness


def _job(kind, shape, scalar, nds, with_ndf, timeout_ms, seed=0):
    validate_law_axioms()
    if kind == 'main':
        h = make_harness(shape, scalar, nds, with_ndf)
        req = ['verdict-iff-every-bin-compatible', 'oracles-equal-per-bin-formula']
    else:
        h = make_twin(shape, scalar, with_ndf, kind)
        req = []
    return run_sym('x', h, timeout_ms=timeout_ms, seed=seed, require_checks=req, logic='QF_NRA')


def float_harness(ex):
    """what the extended-real model cannot see: floating point at extreme significance levels.  Concrete alpha from a pool
    (down to 1e-300), concrete t (in sigmas), with or without ndf, scalar or array datasets; the real verdict is compared with
    an independent, numerically accurate reference (survival-function inverse) and with the p-value decision"""
    from scipy.stats import norm, t as student_t
    from valjean.eponine.dataset import Dataset
    from valjean.gavroche.stat_tests.student import TestStudent
    alpha = [1e-2, 1e-9, 1e-13, 1e-15, 1e-17, 1e-40, 1e-300][ex.choice(7, 'alpha')]
    tsig = [0.5, 5.0, 7.4405, 7.4415, 9.0, 50.0][ex.choice(6, 't-in-sigmas')]
    ndf = [None, 3, 1000][ex.choice(3, 'ndf')]
    scalar = bool(ex.flag('scalar-datasets'))
    sgn = -1.0 if ex.flag('negative-difference') else 1.0
    e = 1.0 / np.sqrt(2.0)          # two errors of 1/sqrt(2): the quadratic sum is 1, so t = difference
    if scalar:
        a, b = Dataset(np.float64(0.0), np.float64(e)), Dataset(np.float64(sgn * tsig), np.float64(e))
    else:
        a, b = Dataset(np.array([0.0, 1.0]), np.array([e, e])), Dataset(np.array([sgn * tsig, 1.0]), np.array([e, e]))
    res = TestStudent(a, b, name='t', alpha=alpha, ndf=ndf).evaluate()
    crit = norm.isf(alpha / 2) if ndf is None else student_t.isf(alpha / 2, ndf)
    tval = tsig
    near = abs(tval - crit) <= 1e-6 * max(1.0, crit)
    if not near and np.isfinite(crit):
        ex.check(bool(res) == (tval < crit), 'float:verdict-agrees-with-the-critical-value-at-extreme-significance-levels',
                 detail=f'alpha={alpha} ndf={ndf} t={tval} critical value={crit} verdict={bool(res)}')
    if not near:
        pv = float(np.min(np.asarray(res.pvalue[0], dtype=float)))
        if pv > 0.0:            # an underflowing p-value (0.0) is below every alpha: nothing to compare
            ex.check(bool(res) == bool(pv > alpha) or abs(pv - alpha) <= 1e-6 * alpha,
                     'float:verdict-agrees-with-the-p-value-decision-at-extreme-significance-levels',
                     detail=f'alpha={alpha} ndf={ndf} t={tval} p={pv} verdict={bool(res)}')


def tiny_harness(ex):
    """float level, the other end: errors so small that their squares underflow (and errors so large that they overflow).  Equal values
    are compatible whatever the (defined) errors: d = 0 gives t = 0, or 0/0 which the test maps to 0"""
    from valjean.eponine.dataset import Dataset
    from valjean.gavroche.stat_tests.student import TestStudent
    pool = [0.0, 5e-324, 1e-200, 1e-170, 1e-160, 1.0, 1e160, 1e200]
    e1 = pool[ex.choice(len(pool), 'error-1')]
    e2 = pool[ex.choice(len(pool), 'error-2')]
    v = [0.0, 1.0, 3e-170, -2.5e180][ex.choice(4, 'common-value')]
    ndf = [None, 5][ex.choice(2, 'ndf')]
    if ex.flag('scalar-datasets'):
        a, b = Dataset(np.float64(v), np.float64(e1)), Dataset(np.float64(v), np.float64(e2))
    else:
        a, b = Dataset(np.array([v, 1.0]), np.array([e1, 1.0])), Dataset(np.array([v, 1.0]), np.array([e2, 1.0]))
    with np.errstate(all='ignore'):
        res = TestStudent(a, b, name='t', alpha=0.01, ndf=ndf).evaluate()
        ok = bool(res) and bool(np.all(res.oracles()))
    ex.check(ok, 'float:equal-values-are-compatible-whatever-the-size-of-the-errors', detail=f'value={v} errors={e1}, {e2} ndf={ndf}')


def _job_tiny(timeout_ms, seed=0):
    return run_sym('x', tiny_harness, timeout_ms=timeout_ms, seed=seed,
                   require_checks=['float:equal-values-are-compatible-whatever-the-size-of-the-errors'])


def _job_float(timeout_ms, seed=0):
    return run_sym('x', float_harness, timeout_ms=timeout_ms, seed=seed,
                   require_checks=['float:verdict-agrees-with-the-critical-value-at-extreme-significance-levels'])


def jobs(tier):
    out = [('float-extreme-alpha', _job_float, dict(timeout_ms=30000)), ('float-tiny-and-huge-errors', _job_tiny, dict(timeout_ms=30000))]
    t = 30000 if tier == 'quick' else 300000
    b = BOUNDS[tier]
    shapes = [('scalar', (), True)] + [(s, eval(s), False) for s in b['shapes'] if not s.startswith('scalar')]
    for sname, shape, scalar in shapes:
        for nds in b['datasets_compared']:
            if nds == 3 and np.prod(shape, dtype=int) > 2:
                continue
            if nds == 2 and np.prod(shape, dtype=int) > 3 and tier == 'quick':
                continue
            for with_ndf in (False, True):
                out.append((f'main-{sname}-n{nds}-ndf{int(with_ndf)}', _job,
                            dict(kind='main', shape=shape, scalar=scalar, nds=nds, with_ndf=with_ndf, timeout_ms=t)))
    for s in b['twin_shapes']:
        scalar = s == 'scalar'
        shape = () if scalar else eval(s)
        for kind in b['relational_twins']:
            for with_ndf in (False, True):
                out.append((f'{kind}-{s}-ndf{int(with_ndf)}', _job,
                            dict(kind=kind, shape=shape, scalar=scalar, nds=1, with_ndf=with_ndf, timeout_ms=t)))
    return out


def replay(rp):
    if rp['job'] == 'float-extreme-alpha':
        return replay_sym(float_harness, rp['inputs'])
    if rp['job'] == 'float-tiny-and-huge-errors':
        return replay_sym(tiny_harness, rp['inputs'])
    for j in jobs('thorough') + jobs('quick'):
        if j[0] == rp['job']:
            p = j[2]
            h = make_harness(p['shape'], p['scalar'], p['nds'], p['with_ndf']) if p['kind'] == 'main' \
                else make_twin(p['shape'], p['scalar'], p['with_ndf'], p['kind'])
            return replay_sym(h, rp['inputs'])
    raise KeyError(rp['job'])
