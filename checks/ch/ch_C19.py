"""CrossHair harnesses for C19: the per-task output directory derived from the task name."""
import posixpath
from valjean.path import sanitize_filename

ROOT = '/out/root'


def _dir_for(name: str) -> str:
    """the directory RunTask uses: Path(output-root, sanitize_filename(name)) -- lexical form"""
    return posixpath.normpath(posixpath.join(ROOT, sanitize_filename(name)))


def output_dir_strictly_inside_root(name: str) -> str:
    """
    pre: len(name) <= 2
    post: _.startswith(ROOT + '/') and len(_) > len(ROOT) + 1
    raises: ValueError
    """
    return _dir_for(name)


def different_names_give_unrelated_directories(n1: str, n2: str) -> bool:
    """
    pre: len(n1) <= 1 and len(n2) <= 1 and n1 != n2
    post: _
    raises: ValueError
    """
    d1, d2 = _dir_for(n1), _dir_for(n2)
    return d1 != d2 and not d1.startswith(d2 + '/') and not d2.startswith(d1 + '/')
