"""C16 -- the dependency graph mirrors a plain node/edge set under any edit history.

Engine E1 (symrun), inductive-step formulation: ONE (thorough: two) public operation(s) with
solver-chosen arguments from an ARBITRARY valid representation state (edge matrix = symbolic
booleans over <= 3/4 nodes, self loops allowed in thorough), instead of unrolling edit histories.
Containers index nodes by identity, so every path is one concrete state: this is bounded-exhaustive
symbolic execution (the property itself asks for exhaustiveness on small graphs); the solver decides
feasibility of each fork and the final checks.  Oracle: a plain (list of nodes, set of pairs) model.
"""
import itertools
from engine.runner import run_sym, replay_sym

PID = 'C16'
LEVEL = 'other'
TARGETS = ['valjean.cosette.depgraph:DepGraph.__init__', 'valjean.cosette.depgraph:DepGraph.add_node',
           'valjean.cosette.depgraph:DepGraph.remove_node', 'valjean.cosette.depgraph:DepGraph.add_dependency',
           'valjean.cosette.depgraph:DepGraph.remove_dependency', 'valjean.cosette.depgraph:DepGraph.invert',
           'valjean.cosette.depgraph:DepGraph.copy', 'valjean.cosette.depgraph:DepGraph.merge',
           'valjean.cosette.depgraph:DepGraph.topological_sort', 'valjean.cosette.depgraph:DepGraph.dependencies',
           'valjean.cosette.depgraph:DepGraph.dependees', 'valjean.cosette.depgraph:DepGraph.depends',
           'valjean.cosette.depgraph:DepGraph.transitive_reduction', 'valjean.cosette.depgraph:DepGraph.transitive_closure',
           'valjean.cosette.depgraph:DepGraph.initial', 'valjean.cosette.depgraph:DepGraph.terminal',
           'valjean.cosette.depgraph:DepGraph.graft', 'valjean.cosette.depgraph:DepGraph.flatten',
           'valjean.cosette.depgraph:DepGraph.isomorphic_to', 'valjean.cosette.depgraph:DepGraph.__le__',
           'valjean.cosette.rlist:RList.__setitem__', 'valjean.cosette.rlist:RList.__delitem__',
           'valjean.cosette.rlist:RList.insert', 'valjean.cosette.rlist:RList.swap', 'valjean.cosette.rlist:RList.index']
BOUNDS = {
    'quick': {'nodes': '<= 3 (+ up to 2 new nodes introduced by the operation); all 4-node states for transitive reduction, closure and topological sort', 'self_loops': 'no (yes for <= 2 nodes)',
              'operations': 'one operation from every state: add_node, add_dependency, remove_node, remove_dependency, merge/+, copy, invert, '
                            'transitive_reduction/closure, topological_sort; flatten with one nested graph of <= 2 nodes (empty included)',
              'rlist': 'lists of <= 3 entries with duplicates, one operation'},
    'thorough': {'nodes': '<= 4 for single operations, <= 3 for sequences of two operations', 'self_loops': 'yes for <= 3 nodes',
                 'operations': 'as quick + two-operation sequences; flatten with nested graph <= 2 nodes inside an outer graph of <= 3 plain nodes, and a doubly nested graph',
                 'rlist': 'lists of <= 4 entries with duplicates, two operations'},
}
ASSUMPTIONS = ['nodes are distinct plain objects compared by identity (as DepGraph does); node labels are symmetric, so the initial node order is fixed and positions vary through the operation arguments',
               'every representation state reachable through the public API has the form (node sequence, edges by position) that the harness builds with add_node/add_dependency',
               'transitive reduction/closure and topological order are only asserted on acyclic states (the sort must raise on cyclic ones)']
OUTSIDE = ['graphs with 5 nodes (the statement asks up to 5: outside the time budget)', 'to_graphviz', 'RList.index first-occurrence order with duplicates']
EXPLANATION = ('bounded-exhaustive symbolic execution (symrun + z3 feasibility) of the real DepGraph/RList code: one or two operations '
               'from every valid state of the bound, compared with a set-theoretic model')


class N:
    """plain node"""
    def __init__(self, name):
        self.name = name

    def __repr__(self):
        return self.name


# ------------------------------------------------------------------ model helpers
def reach(nodes, edges):
    """reflexive-free transitive closure as a set of pairs"""
    r = set(edges)
    changed = True
    while changed:
        changed = False
        for (a, b) in list(r):
            for (c, d) in list(r):
                if b is c and (a, d) not in r:
                    r.add((a, d))
                    changed = True
    return r


def cyclic(nodes, edges):
    return any(a is b for (a, b) in reach(nodes, edges))


def rep_ok(g):
    """representation invariant of DepGraph / RList"""
    nodes = g._nodes
    seq = nodes._seq
    n = len(seq)
    idx = nodes._index
    if sorted(k for k in idx) != sorted(set(id(x) for x in seq)):
        return 'index keys'
    for i, x in enumerate(seq):
        if i not in idx[id(x)]:
            return 'index misses a position'
    if sum(len(v) for v in idx.values()) != n:
        return 'index has extra positions'
    if sorted(g._edges) != list(range(n)):
        return f'edge keys {sorted(g._edges)} != positions 0..{n - 1}'
    for k, vs in g._edges.items():
        if not isinstance(vs, set) or any(not isinstance(v, int) or v < 0 or v >= n for v in vs):
            return 'edge targets outside positions'
    return None


def abstract(g):
    nodes = list(g.nodes())
    edges = set()
    for a in nodes:
        for b in g.dependencies(a):
            edges.add((a, b))
    return nodes, edges


def same_nodes(a, b):
    return len(a) == len(b) and all(any(x is y for y in b) for x in a) and all(any(x is y for y in a) for x in b)


def same_edges(a, b):
    def has(s, p):
        return any(p[0] is q[0] and p[1] is q[1] for q in s)
    return len(a) == len(b) and all(has(b, p) for p in a)


def observers_agree(ex, g, nodes, edges, lab):
    """every observer reports the model (nodes, edges)"""
    from valjean.cosette.depgraph import DepGraph
    err = rep_ok(g)
    ex.check(err is None, lab + ':representation-invariant', detail=str(err))
    if err is not None:
        return False
    gn, ge = abstract(g)
    ok = same_nodes(gn, nodes) and len(gn) == len(set(map(id, gn)))
    ex.check(ok, lab + ':nodes')
    if not ok:
        return False
    ok = same_edges(ge, edges)
    ex.check(ok, lab + ':dependencies')
    if not ok:
        return False
    good = len(g) == len(nodes)
    r = reach(nodes, edges)
    acyclic = not any(a is b for (a, b) in r)
    for a in nodes:
        if a not in g:
            good = False
        want_dependees = [x for x in nodes if any(p[0] is x and p[1] is a for p in edges)]
        if not same_nodes(g.dependees(a), want_dependees):
            good = False
        if not same_nodes(g.dependencies(a, recurse=True), [b for b in nodes if any(p[0] is a and p[1] is b for p in r)]):
            good = False
        for b in nodes:
            if g.depends(a, b) != any(p[0] is a and p[1] is b for p in edges):
                good = False
            # recursive depends() walks the graph without a visited set: only asked on acyclic states
            if acyclic and g.depends(a, b, recurse=True) != any(p[0] is a and p[1] is b for p in r):
                good = False
    d = list(g)
    if len(d) != len(nodes) or not all(any(k is a for a in nodes) for k, _ in d):
        good = False
    else:
        for k, vs in d:
            if not same_nodes(vs, [b for b in nodes if any(p[0] is k and p[1] is b for p in edges)]):
                good = False
    want_init = [a for a in nodes if not any(p[1] is a for p in edges)]
    want_term = [a for a in nodes if not any(p[0] is a for p in edges)]
    if not same_nodes(g.initial(), want_init) or not same_nodes(g.terminal(), want_term):
        good = False
    ex.check(good, lab + ':dependees-recursive-depends-iter-initial-terminal')
    # == and <= against a graph rebuilt from the model
    ref = DepGraph()
    for a in nodes:
        ref.add_node(a)
    for (a, b) in edges:
        ref.add_dependency(a, on=b)
    ex.check((g == ref) and (ref == g) and (g <= ref) and (ref <= g), lab + ':equals-the-graph-rebuilt-from-the-model')
    return True


def _hashable_graph_class():
    """DepGraph defines __eq__ (isomorphism) and is therefore unhashable; the model keeps nodes in
    sets, so nested graphs are instances of a subclass that only adds identity hashing"""
    from valjean.cosette.depgraph import DepGraph

    class HG(DepGraph):
        __hash__ = object.__hash__
    return HG


def build(ex, pool, tag, self_loops, nested=False):
    """arbitrary valid state over `pool`: every node present, symbolic edge matrix"""
    from valjean.cosette.depgraph import DepGraph
    g = _hashable_graph_class()() if nested else DepGraph()
    for a in pool:
        g.add_node(a)
    edges = set()
    for i, a in enumerate(pool):
        for j, b in enumerate(pool):
            if i == j and not self_loops:
                continue
            if ex.bool(f'{tag}e{i}{j}'):
                g.add_dependency(a, on=b)
                edges.add((a, b))
    return g, list(pool), edges


def pick(ex, options, label):
    return options[ex.choice(len(options), label)]


# ------------------------------------------------------------------ single operations
OPS = ['add_node', 'add_dependency', 'remove_node', 'remove_dependency', 'merge', 'copy', 'invert', 'sort',
       'reduction', 'closure']


def apply_op(ex, g, nodes, edges, step, pool_extra, forced=None):
    """apply one solver-chosen operation to g, update the model, assert; returns (nodes, edges)"""
    from valjean.cosette.depgraph import DepGraph, DepGraphError
    op = forced if forced is not None else pick(ex, OPS, f'op{step}')
    ex.note(f'op{step}', op)
    cand = list(nodes) + list(pool_extra)
    lab = op
    if op == 'add_node':
        x = pick(ex, cand, f'arg{step}')
        r = g.add_node(x)
        ex.check(r is g, lab + ':returns-self')
        if not any(x is a for a in nodes):
            nodes = nodes + [x]
    elif op == 'add_dependency':
        a = pick(ex, cand, f'arg{step}a')
        b = pick(ex, cand, f'arg{step}b')
        g.add_dependency(a, on=b)
        for x in (a, b):
            if not any(x is y for y in nodes):
                nodes = nodes + [x]
        if not any(p[0] is a and p[1] is b for p in edges):
            edges = edges | {(a, b)}
    elif op == 'remove_node':
        x = pick(ex, cand, f'arg{step}')
        g.remove_node(x)
        nodes = [a for a in nodes if a is not x]
        edges = {p for p in edges if p[0] is not x and p[1] is not x}
    elif op == 'remove_dependency':
        a = pick(ex, cand, f'arg{step}a')
        b = pick(ex, cand, f'arg{step}b')
        present = all(any(x is y for y in nodes) for x in (a, b))
        has = any(p[0] is a and p[1] is b for p in edges)
        try:
            g.remove_dependency(a, b)
            outcome = 'ok'
        except KeyError:
            outcome = 'KeyError'
        except ValueError:
            outcome = 'ValueError'
        want = 'ok' if has else ('KeyError' if present else 'ValueError')
        ex.check(outcome == want, lab + ':removes-or-raises-as-documented')
        if has:
            edges = {p for p in edges if not (p[0] is a and p[1] is b)}
    elif op == 'merge':
        # other graph over (a subset of) the same nodes plus new ones, symbolic edges
        opool = [nodes[0]] + list(pool_extra) if nodes else list(pool_extra)
        other, onodes, oedges = build(ex, opool[:2], f'o{step}', False)
        osnap = abstract(other)
        plus = bool(ex.flag(f'plus{step}'))
        if plus:
            before = abstract(g)
            res = g + other
            ex.check(res is not g, 'plus:new-graph')
            ok = same_nodes(abstract(g)[0], before[0]) and same_edges(abstract(g)[1], before[1])
            ex.check(ok, 'plus:left-operand-unchanged')
            g2, n2, e2 = res, nodes + [x for x in onodes if not any(x is y for y in nodes)], set(edges)
            for p in oedges:
                if not any(p[0] is q[0] and p[1] is q[1] for q in e2):
                    e2.add(p)
            observers_agree(ex, g2, n2, e2, 'plus')
        else:
            g.merge(other)
            nodes = nodes + [x for x in onodes if not any(x is y for y in nodes)]
            for p in oedges:
                if not any(p[0] is q[0] and p[1] is q[1] for q in edges):
                    edges = edges | {p}
        o2 = abstract(other)
        ex.check(same_nodes(o2[0], osnap[0]) and same_edges(o2[1], osnap[1]), 'merge:right-operand-unchanged')
        # independence afterwards: an edge added to one of (result, right operand) does not show in the other
        if len(onodes) >= 2 and not plus and not any(p[0] is onodes[0] and p[1] is onodes[1] for p in oedges):
            if ex.flag(f'edit-right-operand-after-merge{step}'):
                other.add_dependency(onodes[0], on=onodes[1])
                observers_agree(ex, g, nodes, edges, 'merge:result-after-editing-the-right-operand')
            elif not any(p[0] is onodes[0] and p[1] is onodes[1] for p in edges):
                g.add_dependency(onodes[0], on=onodes[1])
                edges = edges | {(onodes[0], onodes[1])}
                o3 = abstract(other)
                ex.check(same_nodes(o3[0], osnap[0]) and same_edges(o3[1], osnap[1]), 'merge:right-operand-after-editing-the-result')
    elif op in ('copy', 'invert'):
        h = g.copy() if op == 'copy' else g.invert()
        hn = list(nodes)
        he = set(edges) if op == 'copy' else {(b, a) for (a, b) in edges}
        ok = observers_agree(ex, h, hn, he, op)
        ex.check(h is not g, op + ':new-object')
        # independence: edit one, re-abstract the other (both directions, solver-chosen edit)
        which = ex.flag(f'edit-derived{step}')
        tgt, oth, tn, te, on_, oe = (h, g, hn, he, nodes, edges) if which else (g, h, nodes, edges, hn, he)
        edit = pick(ex, ['add_node', 'add_dependency', 'remove_node'], f'edit{step}')
        if edit == 'add_node':
            tgt.add_node(pool_extra[0])
            if not any(pool_extra[0] is y for y in tn):
                tn = tn + [pool_extra[0]]
        elif edit == 'add_dependency' and len(tn) >= 1:
            a = pick(ex, tn, f'edit{step}a')
            b = pick(ex, tn + [pool_extra[0]], f'edit{step}b')
            tgt.add_dependency(a, on=b)
            if not any(b is y for y in tn):
                tn = tn + [b]
            if not any(p[0] is a and p[1] is b for p in te):
                te = te | {(a, b)}
        elif edit == 'remove_node' and tn:
            x = pick(ex, tn, f'edit{step}x')
            tgt.remove_node(x)
            tn = [a for a in tn if a is not x]
            te = {p for p in te if p[0] is not x and p[1] is not x}
        if ok:
            observers_agree(ex, oth, on_, oe, op + ':other-graph-after-editing-one')
            observers_agree(ex, tgt, tn, te, op + ':edited-graph')
        if which:
            pass
        else:
            nodes, edges = tn, te
    elif op == 'sort':
        cyc = cyclic(nodes, edges)
        try:
            order = g.topological_sort()
            raised = False
        except DepGraphError:
            raised = True
        ex.check(raised == cyc, 'sort:raises-exactly-on-cyclic-graphs')
        if not raised and not cyc:
            ok = same_nodes(order, nodes) and len(order) == len(nodes)
            pos = {id(x): i for i, x in enumerate(order)}
            ok = ok and all(pos[id(b)] < pos[id(a)] for (a, b) in edges)
            ex.check(ok, 'sort:every-node-once-after-its-dependencies')
    elif op in ('reduction', 'closure'):
        if cyclic(nodes, edges):
            return nodes, edges, False          # only defined on acyclic graphs
        r0 = reach(nodes, edges)
        res = g.transitive_reduction() if op == 'reduction' else g.transitive_closure()
        ex.check(res is g, op + ':returns-self')
        gn, ge = abstract(g)
        ok = same_nodes(gn, nodes)
        ex.check(ok, op + ':same-nodes')
        if ok:
            ex.check(same_edges(reach(gn, ge), r0), op + ':preserves-reachability')
            if op == 'closure':
                ex.check(same_edges(ge, r0), 'closure:has-every-reachability-edge')
            else:
                minimal = {(a, b) for (a, b) in r0
                           if not any(any(p[0] is a and p[1] is c for p in r0) and any(p[0] is c and p[1] is b for p in r0)
                                      for c in nodes)}
                ex.check(same_edges(ge, minimal), 'reduction:has-the-fewest-edges')
            edges = ge
    return nodes, edges, True


def make_harness(n, self_loops, steps, first_op=None):
    def harness(ex):
        pool = [N(f'n{i}') for i in range(n)]
        extra = [N('x0'), N('x1')]
        g, nodes, edges = build(ex, pool, '', self_loops)
        if not observers_agree(ex, g, nodes, edges, 'initial-state'):
            return
        for step in range(steps):
            nodes, edges, cont = apply_op(ex, g, nodes, edges, step, extra, forced=first_op if step == 0 else None)
            if not cont:
                return
            if not observers_agree(ex, g, nodes, edges, f'after-{ex.notes.get(f"op{step}", "op")}'):
                return
    return harness


# ------------------------------------------------------------------ flatten
def make_flatten(n_outer, n_inner, deep):
    def harness(ex):
        from valjean.cosette.depgraph import DepGraph
        plain = [N(f'n{i}') for i in range(n_outer)]
        inner_nodes = [N(f's{i}') for i in range(n_inner)]
        sub, sn, se = build(ex, inner_nodes, 's', False, nested=True)
        if cyclic(sn, se):
            return
        subsub = None
        if deep:
            dn = [N('d0')] if ex.flag('deep-nonempty') else []
            subsub, _, _ = build(ex, dn, 'd', False, nested=True)
            sub.add_node(subsub)
            # subsub takes part in the inner graph: symbolic edges with the inner nodes
            for i, a in enumerate(inner_nodes):
                if ex.bool(f'ds{i}'):
                    sub.add_dependency(a, on=subsub)
                elif ex.bool(f'sd{i}'):
                    sub.add_dependency(subsub, on=a)
        outer_pool = plain + [sub]
        g, on_, oe = build(ex, outer_pool, 'o', False)
        if cyclic(on_, oe):
            return
        # virtual graph: x -> G means x after all of G; G -> y means all of G after y
        def virt(graph):
            """edges between plain nodes and (in, out) ports of nested graphs"""
            es = set()
            ports = {}

            def port(x):
                if isinstance(x, DepGraph):
                    if id(x) not in ports:
                        ports[id(x)] = (N('in'), N('out'))
                        pi, po = ports[id(x)]
                        es.add((pi, po))
                        sub_es, _ = virt(x)
                        es.update(sub_es)
                        for m in x.nodes():
                            mi, mo = port(m)
                            es.add((pi, mi))
                            es.add((mo, po))
                    return ports[id(x)]
                return (x, x)
            for a in graph.nodes():
                ai, ao = port(a)
                for b in graph.dependencies(a):
                    bi, bo = port(b)
                    es.add((ao, bi))
            return es, ports
        ves, _ = virt(g)
        all_plain = plain + inner_nodes + ([x for x in subsub.nodes()] if subsub is not None else [])
        want = {(a, b) for (a, b) in reach(None, ves)
                if any(a is p for p in all_plain) and any(b is p for p in all_plain) and a is not b}
        if any(a is b for (a, b) in reach(None, ves)):
            return          # cyclic through nesting
        # flattening the outer graph must leave the nested graph OBJECTS (shared with the caller, with copies...) as they were
        sub_before = abstract(sub)
        subsub_before = abstract(subsub) if subsub is not None else None
        g.flatten()
        sa = abstract(sub)
        ex.check(same_nodes(sa[0], sub_before[0]) and same_edges(sa[1], sub_before[1]), 'flatten:nested-graph-objects-are-not-modified')
        if subsub is not None:
            ssa = abstract(subsub)
            ex.check(same_nodes(ssa[0], subsub_before[0]) and same_edges(ssa[1], subsub_before[1]),
                     'flatten:nested-graph-objects-are-not-modified')
        err = rep_ok(g)
        ex.check(err is None, 'flatten:representation-invariant', detail=str(err))
        if err is not None:
            return
        gn, ge = abstract(g)
        ok = same_nodes(gn, all_plain)
        ex.check(ok, 'flatten:exactly-the-plain-nodes')
        if ok:
            got = reach(gn, ge)
            ex.check(all(any(p[0] is a and p[1] is b for p in got) for (a, b) in want),
                     'flatten:preserves-every-ordering-constraint-between-plain-nodes')
            ex.check(all(any(p[0] is a and p[1] is b for p in want) for (a, b) in got),
                     'flatten:adds-no-ordering-constraint')
    return harness


# ------------------------------------------------------------------ RList
def make_rlist(n, steps):
    def harness(ex):
        from valjean.cosette.rlist import RList
        objs = [N('a'), N('b'), N('c')]
        model = [objs[ex.choice(3, f'init{i}')] for i in range(n)]
        rl = RList(model)

        def consistent(lab):
            ok = list(rl._seq) == model and all(x is y for x, y in zip(rl._seq, model)) and len(rl) == len(model)
            idx = rl._index
            for o in objs:
                pos = [i for i, x in enumerate(model) if x is o]
                if pos:
                    if sorted(idx.get(id(o), [])) != pos or (o in rl) is not True or sorted(rl.indices(o)) != pos \
                            or rl.index(o) not in pos or rl.get_index(o, None) not in pos:
                        ok = False
                else:
                    if id(o) in idx or (o in rl) or rl.get_index(o, 'dflt') != 'dflt':
                        ok = False
            if sum(len(v) for v in idx.values()) != len(model):
                ok = False
            ex.check(ok, lab + ':sequence-and-reverse-index-consistent')
            return ok
        if not consistent('init'):
            return
        for step in range(steps):
            op = pick(ex, ['set', 'del', 'insert', 'swap', 'append'], f'rop{step}')
            ex.note(f'rop{step}', op)
            m = len(model)
            if op == 'set' and m:
                i = ex.choice(2 * m, f'i{step}') - m
                v = objs[ex.choice(3, f'v{step}')]
                rl[i] = v
                model[i] = v
            elif op == 'del' and m:
                i = ex.choice(2 * m, f'i{step}') - m
                del rl[i]
                del model[i]
            elif op == 'insert':
                i = ex.choice(2 * m + 3, f'i{step}') - m - 1
                v = objs[ex.choice(3, f'v{step}')]
                rl.insert(i, v)
                model.insert(i, v)
            elif op == 'swap' and m:
                i = ex.choice(m, f'i{step}')
                j = ex.choice(m, f'j{step}')
                rl.swap(i, j)
                model[i], model[j] = model[j], model[i]
            elif op == 'append':
                v = objs[ex.choice(3, f'v{step}')]
                rl.append(v)
                model.append(v)
            if not consistent(op):
                return
        cp = rl.copy()
        cp.append(objs[0])
        consistent('copy-is-independent')
    return harness


def _job(kind, timeout_ms, seed=0, **p):
    if kind == 'ops':
        h = make_harness(p['n'], p['self_loops'], p['steps'], p.get('first_op'))
    elif kind == 'flatten':
        h = make_flatten(p['n_outer'], p['n_inner'], p['deep'])
    else:
        h = make_rlist(p['n'], p['steps'])
    return run_sym('x', h, timeout_ms=timeout_ms, seed=seed, max_paths=3000000)


def jobs(tier):
    out = []
    t = 20000
    if tier == 'quick':
        plan = [('ops', dict(n=0, self_loops=False, steps=2)), ('ops', dict(n=1, self_loops=True, steps=2)),
                ('ops', dict(n=2, self_loops=True, steps=1)), ('ops', dict(n=3, self_loops=False, steps=1)),
                ('flatten', dict(n_outer=2, n_inner=0, deep=False)), ('flatten', dict(n_outer=2, n_inner=1, deep=False)),
                ('flatten', dict(n_outer=2, n_inner=2, deep=False)), ('flatten', dict(n_outer=1, n_inner=1, deep=True)),
                ('rlist', dict(n=0, steps=2)), ('rlist', dict(n=2, steps=1)), ('rlist', dict(n=3, steps=1)),
                # fewest / most edges and the order of a sort only become non-trivial with four nodes (a redundant edge next to a
                # node that was already walked from another start): one operation from every 4-node state
                ('ops', dict(n=4, self_loops=False, steps=1, first_op='reduction')),
                ('ops', dict(n=4, self_loops=False, steps=1, first_op='closure')),
                ('ops', dict(n=4, self_loops=False, steps=1, first_op='sort'))]
    else:
        plan = [('ops', dict(n=0, self_loops=False, steps=2)), ('ops', dict(n=1, self_loops=True, steps=2)),
                ('ops', dict(n=2, self_loops=True, steps=2)), ('ops', dict(n=3, self_loops=True, steps=1)),
                ] + [('ops', dict(n=3, self_loops=False, steps=2, first_op=op)) for op in OPS] + [     # sharded by the first operation
                ('ops', dict(n=4, self_loops=False, steps=1, first_op=op)) for op in OPS] + [
                ('flatten', dict(n_outer=2, n_inner=0, deep=False)), ('flatten', dict(n_outer=2, n_inner=1, deep=False)),
                ('flatten', dict(n_outer=2, n_inner=2, deep=False)), ('flatten', dict(n_outer=3, n_inner=0, deep=False)),
                ('flatten', dict(n_outer=3, n_inner=1, deep=False)), ('flatten', dict(n_outer=3, n_inner=2, deep=False)),
                ('flatten', dict(n_outer=2, n_inner=1, deep=True)), ('flatten', dict(n_outer=2, n_inner=0, deep=True)),
                ('rlist', dict(n=0, steps=2)), ('rlist', dict(n=2, steps=2)), ('rlist', dict(n=3, steps=2)),
                ('rlist', dict(n=4, steps=1))]
    for kind, p in plan:
        name = kind + '-' + '-'.join(f'{k}{int(v) if isinstance(v, bool) else v}' for k, v in p.items())
        out.append((name, _job, dict(kind=kind, timeout_ms=t, **p)))
    return out


def replay(rp):
    for j in jobs('thorough') + jobs('quick'):
        if j[0] == rp['job']:
            p = dict(j[2])
            kind = p.pop('kind')
            p.pop('timeout_ms')
            h = make_harness(**p) if kind == 'ops' else make_flatten(**p) if kind == 'flatten' else make_rlist(**p)
            return replay_sym(h, rp['inputs'])
    raise KeyError(rp['job'])
