"""C03 -- scheduling always terminates and leaves no worker thread behind."""
import z3
from checks import sched
from checks.sched import Config, run_job
from engine.threadsym import props
from engine.threadsym.roles import KINDS
from engine.threadsym.bmc import BW

PID = 'C03'
LEVEL = 'model_checking'
TARGETS = sched.TARGETS
ASSUMPTIONS = sched.ASSUMPTIONS + ['initial environment: every task absent, or present with status DONE / FAILED / SKIPPED (left by earlier runs) or WAITING / '
                                   'PENDING (left by a run that was killed; configurations of the quick set only -- in the thorough tier those with <= 2 tasks), arbitrary result '
                                   'and arbitrary earlier clocks (solver-chosen)',
                                   'a scheduler object used before: covered by induction -- every terminated run is shown to leave the work queue '
                                   'empty with no unfinished task, which is the state each analysed call starts from',
                                   'deadlock = a reachable state in which no thread can move while some started thread has not finished '
                                   '(covers lost wake-ups, join on a dead worker, workers left blocked after the master returned or raised)']
OUTSIDE = sched.OUTSIDE
BOUNDS = {'quick': {'tasks': 2, 'graphs': 'all 3 acyclic labelled graphs on 2 tasks + the three 2-cycles + the hard 3-cycle', 'workers': [1],
                    'plus': '3-task hard chain with 1 worker; 1 task with 2 workers (more workers than tasks)', 'outcomes': KINDS,
                    'pristine-queue query': '2-task graphs and 3-task graphs without soft edges',
                    'depth': 'every run, first K = 22+11N+6W steps'},
          'thorough': {'tasks': '<= 3', 'graphs': 'all 27 acyclic labelled graphs on 3 tasks (W=1), 2-task graphs W=1 (two workers: outside, queries need 30-75 min from an arbitrary initial environment), cycles',
                       'outcomes': KINDS, 'depth': 'W=1 and (<= 2 tasks or no soft edge): K = 22+11N+6W established by the unwinding query (every run is complete, bounded termination); otherwise first K steps of every run (unwinding query out of reach)'}}
EXPLANATION = ('extracted thread automata + z3 bounded model checking (QF_BV): no reachable state of any interleaving is quiescent with an '
               'unfinished thread; in the thorough tier the unwinding query also bounds the length of every run; counterexamples replayed on real threads')
extra_coverage = sched.extra_coverage
Q1 = 'deadlock: no thread can move while some thread has not finished'


def confirm(cfg, rp, kinds, extra):
    parked = rp.get('parked') or {}
    blocked = rp.get('blocked') or {}
    if parked and all(blocked.get(t) for t in parked):
        who = {('master' if t == 0 else f'worker {t}'): blocked[t] for t in parked}
        return (f'schedule() {rp.get("outcome", "never came back")}; threads left blocked for ever: {who}; '
                f'finished: {rp.get("finished")}')
    return None


Q2 = 'schedule() came back but the work queue is not back in its pristine state (the next call on the same scheduler starts from it)'


def confirm_q2(cfg, rp, kinds, extra):
    if not rp.get('parked') and (rp.get('queue_items') or rp.get('queue_unfinished')):
        return (f'schedule() {rp.get("outcome")}, every thread finished, but the work queue holds {rp.get("queue_items")} item(s) and counts '
                f'{rp.get("queue_unfinished")} unfinished task(s): Queue.join() of the next schedule() call on this scheduler never returns')
    return None


CONFIRM = {Q1: confirm, Q2: confirm_q2}
LEFTOVERS = True     # WAITING / PENDING entries left by a run that was killed are part of the initial-environment alphabet
NAMES = ['WAITING', 'PENDING', 'DONE', 'FAILED', 'SKIPPED']


def init_env_from(cfg, extra):
    from valjean.cosette.task import TaskStatus
    from engine.threadsym.roles import Payload
    env = {}
    for i, e in enumerate(extra.get('init_env', [])):
        if e is None:
            continue
        d = {'status': list(TaskStatus)[e['status']]}      # intern code = position in the enumeration
        if e.get('result'):
            d['result'] = Payload(i, 'old')
        if e.get('start') is not None:
            d['start_clock'] = e['start']
        if e.get('end') is not None:
            d['end_clock'] = e['end']
        env[cfg.names[i]] = d
    return env


def replay_kwargs_for(cfg):
    return lambda extra: {'init_env': init_env_from(cfg, extra)}


def model_extra(cfg):
    def f(u, m):
        out = []
        for i in range(cfg.n):
            if not u.val(m, 0, f'p{i}'):
                out.append(None)
                continue
            out.append({'status': u.val(m, 0, f'v{i}_status'), 'result': u.val(m, 0, f'h{i}_result'),
                        'start': u.val(m, 0, f'v{i}_start_clock') if u.val(m, 0, f'h{i}_start_clock') else None,
                        'end': u.val(m, 0, f'v{i}_end_clock') if u.val(m, 0, f'h{i}_end_clock') else None})
        return {'init_env': out}
    return f


def init_arbitrary_final(prod):
    """absent, or DONE/FAILED/SKIPPED with arbitrary (earlier) clocks"""
    p = prod.pre
    cs = [props.init_common(prod, empty_env=False)]
    old = lambda i: props.payload_code(prod, i, 'old')     # noqa
    for i in range(prod.cfg.n):
        st = p[f'v{i}_status']
        ent = z3.And(p[f'h{i}_status'], z3.Or(st == props.DONE, st == props.FAILED, st == props.SKIPPED,
                                              *([st == props.WAITING, st == props.PENDING] if LEFTOVERS else [])),
                     z3.Implies(p[f'h{i}_result'], p[f'v{i}_result'] == old(i)),
                     p[f'v{i}_start_clock'] >= 0, p[f'v{i}_end_clock'] >= p[f'v{i}_start_clock'],
                     p[f'v{i}_end_clock'] < p['clk'], p[f'h{i}_start_clock'] == p[f'h{i}_end_clock'])
        absent = z3.And(*[z3.Not(p[f'h{i}_{f}']) for f in prod.schema.fields])
        cs.append(z3.If(p[f'p{i}'], ent, absent))
        for f in prod.schema.fields:
            if f not in ('status', 'result', 'start_clock', 'end_clock'):
                cs.append(z3.Not(p[f'h{i}_{f}']))
    cs.append(p['clk'] < 40)
    return z3.And(*cs)


def prop(an, prod):
    cfg = prod.cfg
    # a quiescent state persists (the system stutters), so the last step sees every deadlock of the run
    queries = [(Q1, lambda u: u.at(u.K, props.deadlock(prod)), confirm)]
    if cfg.n <= 2 or not cfg.soft:
        # inductive step for calls on a scheduler that was used before: the analysis starts from an empty queue with
        # no unfinished task, so every terminated run has to give that state back.  (Not asked for 3-task graphs with
        # soft edges: measured 5 min and more per configuration; the queue accounting does not look at edge kinds.)
        queries.append((Q2, lambda u: u.at(u.K, z3.And(props.all_terminal(prod),
                                                       z3.Or(prod.pre['qh'] != prod.pre['qt'], prod.pre['qu'] != 0))), confirm_q2))
    return {'init': init_arbitrary_final, 'may_not_end': True,
            'model_extra': model_extra(cfg), 'replay_kwargs': replay_kwargs_for(cfg), 'queries': queries}


def replay_kwargs(extra):
    raise NotImplementedError


def _job(n, hard, soft, w, tier, seed=0):
    # the wider initial-environment alphabet (WAITING / PENDING leftovers) is used for the configurations of the quick set (thorough tier:
    # those with <= 2 tasks, whose unwinding queries were measured with it); the other configurations of the thorough tier keep DONE / FAILED / SKIPPED leftovers, with which they were measured to be
    # conclusive (a check that may end inconclusive on the unchanged tree is not registered)
    global LEFTOVERS
    LEFTOVERS = sched.cfg_name(Config(n, hard, soft, w)) in {j[0] for j in jobs('quick')} and (tier == 'quick' or n <= 2)
    return run_job(Config(n, hard, soft, w), prop, tier, seed)


def jobs(tier):
    out = sched.standard_jobs(tier, _job, cyclic=True, light=('n2w2-h10-s_', 'n3w1-h10-s21', 'n3w1-h20-s21'), no_w2=True)
    # more workers than tasks (idle workers must be stopped too, and must not leave sentinels behind)
    out.append((sched.cfg_name(Config(1, [], [], 2)), _job, dict(n=1, hard=[], soft=[], w=2, tier=tier)))
    return out


def replay(rp):
    import sys
    mod = sys.modules[__name__]
    for j in jobs('thorough') + jobs('quick'):
        if j[0] == rp['job']:
            p = j[2]
            cfg = Config(p['n'], p['hard'], p['soft'], p['w'])
            mod.replay_kwargs = replay_kwargs_for(cfg)
    return sched.generic_replay(mod, rp)
