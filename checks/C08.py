"""C08 -- dataset arithmetic propagates uncorrelated errors and keeps datasets well formed.

Engine E1 (symrun): the real Dataset.__add__/__sub__/__mul__/__truediv__/copy/squeeze run on
SymArray operands whose cells are symbolic reals; one z3 query per asserted clause and path.
"""
from collections import OrderedDict
import numpy as np
from engine.runner import run_sym, replay_sym
from engine.symrun.arrays import sym_real_array, SymArray
from engine.symrun import oracle as O
from engine.symrun.oracle import cells

PID = 'C08'
LEVEL = 'other'
TARGETS = ['valjean.eponine.dataset:Dataset.__init__', 'valjean.eponine.dataset:Dataset.__add__',
           'valjean.eponine.dataset:Dataset.__sub__', 'valjean.eponine.dataset:Dataset.__mul__',
           'valjean.eponine.dataset:Dataset.__truediv__', 'valjean.eponine.dataset:Dataset.copy',
           'valjean.eponine.dataset:Dataset.squeeze',
           'valjean.eponine.dataset:Dataset._check_datasets_consistency']
BOUNDS = {
    'quick': {'shapes': ['()', '(2,)', '(1,2)'], 'bins': ['edges', 'centres', 'none'],
              'mask_jobs': '1-d, 2 cells, chains of 3 operations out of mask/add/mul/sub-const/copy/squeeze/slice, all mask patterns',
              'chain_length': 1, 'values': 'finite reals of either sign (divisors != 0)',
              'errors': 'finite reals >= 0'},
    'thorough': {'shapes': ['()', '(1,)', '(2,)', '(3,)', '(2,2)', '(1,2)', '(2,1,2)'],
                 'bins': ['edges', 'centres', 'none'], 'chain_length': 2,
                 'mask_jobs': '1-d, 2-3 cells, chains of 3-4 operations, all mask patterns',
                 'values': 'finite reals of either sign (divisors != 0)', 'errors': 'finite reals >= 0'},
}
ASSUMPTIONS = [
    'floats are idealised as exact reals (rounding/overflow outside the claim); counterexamples are '
    'replayed in float64 with relative tolerance 1e-9',
    'sqrt(x) is modelled as the unique s >= 0 with s*s = x',
    'a symbolic scalar constant is passed as a 0-d array in symbolic mode (a Python float in replay)',
    'values and errors finite; errors >= 0; dataset divisors have no zero cell; constant divisor != 0',
]
OUTSIDE = ['arithmetic formulas on masked cells (mask() jobs use fixed cell values with symbolic mask bits and operation sequences)',
           'shapes beyond those listed, chains longer than the bound', 'NaN/inf cells in arithmetic']
EXPLANATION = ('bounded symbolic execution (engine symrun) of the real Dataset arithmetic on numpy object '
               'arrays of z3-backed extended reals; each clause is decided by z3 (QF_NRA) per path')

OPS = ['add_ds', 'sub_ds', 'mul_ds', 'div_ds', 'add_c', 'sub_c', 'mul_c', 'div_c',
       'add_arr', 'sub_arr', 'mul_arr', 'div_arr', 'copy', 'squeeze', 'mul_np', 'div_np']
NP_SCALARS = [np.int64(3), np.float32(0.5), np.int32(-2), np.float64(1.5)]       # numpy.generic factors (documented as supported)


def _mk_bins(ex, shape, kind, tag):
    if kind == 'none' or not shape:
        return None
    bins = OrderedDict()
    for ax, n in enumerate(shape):
        m = n + 1 if kind == 'edges' else n
        bins[f'k{ax}'] = sym_real_array(ex, f'{tag}bins{ax}', (m,))
    return bins


def _scalarize(ex, a):
    """shape () operands: numpy scalar in replay mode (as in real use), 0-d SymArray in symbolic mode"""
    if not ex.symbolic and isinstance(a, np.ndarray) and a.ndim == 0:
        return np.float64(a)
    return a


def _snapshot(ds):
    return {'value': ds.value, 'error': ds.error, 'vcells': cells(ds.value), 'ecells': cells(ds.error),
            'bins': OrderedDict((k, (b, cells(b))) for k, b in ds.bins.items()),
            'name': ds.name, 'what': ds.what, 'shape': ds.value.shape}


def _unchanged(ex, ds, snap, label):
    ok = ds.value is snap['value'] and ds.error is snap['error'] and ds.name == snap['name'] \
        and ds.what == snap['what'] and list(ds.bins) == list(snap['bins']) \
        and ds.value.shape == snap['shape'] and ds.error.shape == snap['shape']
    ex.check(ok, label + ':structure')
    if not ok:
        return
    conds = []
    for a, b in zip(cells(ds.value), snap['vcells']):
        conds.append(a is b or O.same(a, b))
    for a, b in zip(cells(ds.error), snap['ecells']):
        conds.append(a is b or O.same(a, b))
    for k, (arr, cs) in snap['bins'].items():
        if ds.bins[k] is not arr or len(cells(ds.bins[k])) != len(cs):
            ex.check(False, label + ':bins-replaced')
            return
        for a, b in zip(cells(ds.bins[k]), cs):
            conds.append(a is b or O.same(a, b))
    ex.check(O.band(*conds), label + ':cells')


def _wellformed(ex, res, left_snap, label, expect_shape=None):
    from valjean.eponine.dataset import Dataset
    ok = isinstance(res, Dataset)
    ex.check(ok, label + ':is-dataset')
    if not ok:
        return False
    shape = left_snap['shape'] if expect_shape is None else expect_shape
    ok = (np.shape(res.value) == shape and np.shape(res.error) == shape)
    ex.check(ok, label + ':shape')
    return ok


def _same_bins(ex, res, left_snap, label):
    ok = list(res.bins) == list(left_snap['bins'])
    ex.check(ok, label + ':bins-keys')
    if not ok:
        return
    conds = []
    for k, (arr, cs) in left_snap['bins'].items():
        rc = cells(res.bins[k])
        if len(rc) != len(cs):
            ex.check(False, label + ':bins-length')
            return
        conds.extend(a is b or O.same(a, b) for a, b in zip(rc, cs))
    ex.check(O.band(*conds), label + ':bins-content')


def _apply(ex, ds, shape, binkind, step):
    """apply one solver-chosen operation to `ds`; assert its clauses; return the result"""
    from valjean.eponine.dataset import Dataset
    op = OPS[ex.choice(len(OPS), f'op{step}')]
    ex.note(f'op{step}', op)
    tag = f's{step}'
    left = _snapshot(ds)
    lv, le = left['vcells'], left['ecells']
    other = None
    other_snap = None
    if op.endswith('_ds'):
        nz = op == 'div_ds'
        ov = _scalarize(ex, sym_real_array(ex, f'{tag}ov', shape))
        oe = _scalarize(ex, sym_real_array(ex, f'{tag}oe', shape, nonneg=True))
        if nz:
            for c in cells(ov):
                ex.assume(O.bnot(O.eq(c, 0)) if ex.symbolic else c != 0)
        # same bins (the consistency check demands equal bins), or none on the right
        obins = None
        if ds.bins and ex.flag(f'{tag}obins'):
            obins = OrderedDict((k, b) for k, b in ds.bins.items())
        elif not ds.bins and shape and ex.flag(f'{tag}obins-although-left-has-none'):
            obins = _mk_bins(ex, shape, 'edges', tag)          # accepted by the consistency check; the LEFT bins (none) are kept
        other = Dataset(ov, oe, bins=obins, name='other', what=ds.what if ex.flag(f'{tag}samewhat') else 'w2')
        other_snap = _snapshot(other)
        rv, re_ = other_snap['vcells'], other_snap['ecells']
    elif op.endswith('_c'):
        c = ex.real(f'{tag}c')
        if op == 'div_c':
            ex.assume(O.bnot(O.eq(c, 0)) if ex.symbolic else c != 0)
        # the isinstance(other, (int, float, ndarray)) guard of + and - needs a real float or
        # array: the symbolic constant is handed over as a 0-d array (stated in ASSUMPTIONS)
        other = SymArray(c) if ex.symbolic else c
        b_const = c
    elif op.endswith('_np'):
        other = NP_SCALARS[ex.choice(len(NP_SCALARS), f'{tag}np-scalar')]
        b_const = float(other)
    elif op.endswith('_arr'):
        oa = sym_real_array(ex, f'{tag}arr', shape)
        if op == 'div_arr':
            for c in cells(oa):
                ex.assume(O.bnot(O.eq(c, 0)) if ex.symbolic else c != 0)
        other = oa
        arr_cells = cells(oa)
    kind = op.split('_')[0]
    if kind == 'add':
        res = ds + other
    elif kind == 'sub':
        res = ds - other
    elif kind == 'mul':
        res = ds * other
    elif kind == 'div':
        res = ds / other
    elif kind == 'copy':
        res = ds.copy()
    else:
        res = ds.squeeze()
    lab = f'{op}'
    # ---- operands unchanged
    _unchanged(ex, ds, left, lab + ':left-unchanged')
    if other_snap is not None:
        _unchanged(ex, other, other_snap, lab + ':right-unchanged')
    if op.endswith('_arr'):
        ex.check(O.band(*[a is b or O.same(a, b) for a, b in zip(cells(oa), arr_cells)]),
                 lab + ':array-operand-unchanged')
    # ---- result
    if kind == 'squeeze':
        eshape = tuple(n for n in shape if n != 1)
        if not _wellformed(ex, res, left, lab, eshape):
            return res
        keep = [k for k, n in zip(left['bins'], shape) if n != 1] if left['bins'] else []
        ex.check(list(res.bins) == keep, lab + ':bins-kept')
        ex.check(O.band(*[O.same(a, b) for a, b in zip(cells(res.value), lv)],
                        *[O.same(a, b) for a, b in zip(cells(res.error), le)]), lab + ':cells')
        return res
    if not _wellformed(ex, res, left, lab):
        return res
    _same_bins(ex, res, left, lab)
    ex.check(res.name == left['name'], lab + ':name')
    rvals, rerrs = cells(res.value), cells(res.error)
    if kind == 'copy':
        ex.check(O.band(*[O.same(a, b) for a, b in zip(rvals, lv)],
                        *[O.same(a, b) for a, b in zip(rerrs, le)]), lab + ':cells')
        shares = np.shares_memory(np.asarray(res.value), np.asarray(ds.value)) or \
            np.shares_memory(np.asarray(res.error), np.asarray(ds.error))
        ex.check(not shares, lab + ':independent-value-error')
        shb = any(res.bins[k] is ds.bins[k] or np.shares_memory(np.asarray(res.bins[k]), np.asarray(ds.bins[k]))
                  for k in ds.bins)
        ex.check(not shb, lab + ':independent-bins')
        ex.check(res.bins is not ds.bins, lab + ':independent-bins-dict')
        return res
    vconds, econds, pos = [], [], []
    for i in range(len(lv)):
        a, ea = lv[i], le[i]
        if op.endswith('_ds'):
            b, eb = rv[i], re_[i]
            if kind == 'add':
                vconds.append(O.eq(rvals[i], a + b))
                econds.append(O.eq(rerrs[i] * rerrs[i], ea * ea + eb * eb))
            elif kind == 'sub':
                vconds.append(O.eq(rvals[i], a - b))
                econds.append(O.eq(rerrs[i] * rerrs[i], ea * ea + eb * eb))
            elif kind == 'mul':
                vconds.append(O.eq(rvals[i], a * b))
                econds.append(O.eq(rerrs[i] * rerrs[i], (ea * b) * (ea * b) + (eb * a) * (eb * a)))
            else:
                vconds.append(O.eq(rvals[i], a / b))
                t1 = ea / b
                t2 = a * eb / (b * b)
                econds.append(O.eq(rerrs[i] * rerrs[i], t1 * t1 + t2 * t2))
        else:
            b = b_const if op.endswith(('_c', '_np')) else arr_cells[i]
            if kind == 'add':
                vconds.append(O.eq(rvals[i], a + b))
                econds.append(O.eq(rerrs[i], ea))
            elif kind == 'sub':
                vconds.append(O.eq(rvals[i], a - b))
                econds.append(O.eq(rerrs[i], ea))
            elif kind == 'mul':
                vconds.append(O.eq(rvals[i], a * b))
                econds.append(O.eq(rerrs[i], ea * abs(b)))
            else:
                vconds.append(O.eq(rvals[i], a / b))
                econds.append(O.eq(rerrs[i], ea / abs(b)))
        pos.append(O.ge0(rerrs[i]))
    ex.check(O.band(*vconds), lab + ':value-is-array-operation')
    ex.check(O.band(*pos), lab + ':error-nonnegative')
    ex.check(O.band(*econds), lab + ':error-first-order-formula')
    return res


def make_harness(shape, binkind, chain):
    def harness(ex):
        from valjean.eponine.dataset import Dataset
        v = _scalarize(ex, sym_real_array(ex, 'v', shape))
        e = _scalarize(ex, sym_real_array(ex, 'e', shape, nonneg=True))
        bins = _mk_bins(ex, shape, binkind, '')
        ds = Dataset(v, e, bins=bins, name='left', what='w')
        cur_shape = shape
        for step in range(chain):
            ds = _apply(ex, ds, cur_shape, binkind, step)
            if not isinstance(ds, Dataset):
                return
            cur_shape = np.shape(ds.value)
    return harness


def _ma_snapshot(ds):
    return (np.ma.getdata(ds.value).copy(), np.ma.getmaskarray(ds.value).copy(),
            np.ma.getdata(ds.error).copy(), np.ma.getmaskarray(ds.error).copy(),
            type(ds.value), OrderedDict((k, np.array(b, copy=True)) for k, b in ds.bins.items()), ds.name, ds.what)


def _ma_same(ds, snap):
    v, mv, e, me, tp, bins, name, what = snap
    return (type(ds.value) is tp and np.array_equal(np.ma.getdata(ds.value), v)
            and np.array_equal(np.ma.getmaskarray(ds.value), mv)
            and np.array_equal(np.ma.getdata(ds.error), e) and np.array_equal(np.ma.getmaskarray(ds.error), me)
            and list(ds.bins) == list(bins) and all(np.array_equal(ds.bins[k], bins[k]) for k in bins)
            and ds.name == name and ds.what == what)


MASK_OPS = ['mask', 'add_ds', 'mul_ds', 'sub_c', 'copy', 'squeeze', 'slice']


def make_mask_harness(n, chain):
    """mask(): numpy.ma needs concrete cells, so values are fixed distinct floats; the mask bits
    (and the operation sequence) are symbolic and forked by the solver.  Asserted: operands (data
    AND masks) are never modified, results are well formed and masked exactly where asked."""
    def harness(ex):
        from valjean.eponine.dataset import Dataset
        vals = np.arange(1., n + 1.)
        errs = np.arange(1., n + 1.) / 8
        bins = OrderedDict([('k0', np.arange(0., n + 1.))])
        ds = Dataset(vals.copy(), errs.copy(), bins=bins, name='left', what='w')
        live = [ds]
        for step in range(chain):
            op = MASK_OPS[ex.choice(len(MASK_OPS), f'mop{step}')]
            ex.note(f'mop{step}', op)
            cur = live[-1]
            m = cur.value.shape[0] if cur.value.ndim else 0
            snaps = [_ma_snapshot(d) for d in live]
            if op == 'mask':
                bits = [ex.bool(f'm{step}_{i}') for i in range(m)]
                mask = np.array([bool(b) for b in bits], dtype=bool)
                res = cur.mask(mask)
                ok = isinstance(res, Dataset) and np.shape(res.value) == np.shape(cur.value) and \
                    np.shape(res.error) == np.shape(cur.value)
                ex.check(ok, 'mask:well-formed')
                if ok:
                    want = np.ma.getmaskarray(cur.value) | mask
                    ex.check(np.array_equal(np.ma.getmaskarray(res.value), want) and
                             np.array_equal(np.ma.getmaskarray(res.error), want), 'mask:masked-cells')
                    ex.check(np.array_equal(np.ma.getdata(res.value), np.ma.getdata(cur.value)), 'mask:data-kept')
                    ex.check(list(res.bins) == list(cur.bins) and
                             all(np.array_equal(res.bins[k], cur.bins[k]) for k in cur.bins), 'mask:bins-kept')
            elif op == 'add_ds':
                res = cur + Dataset(np.ones(m), np.ones(m), name='o')
            elif op == 'mul_ds':
                res = cur * Dataset(np.full(m, 2.), np.ones(m), name='o')
            elif op == 'sub_c':
                res = cur - 1.5
            elif op == 'copy':
                res = cur.copy()
            elif op == 'squeeze':
                res = cur.squeeze()
            else:
                res = cur[1:] if cur.value.ndim == 1 else cur
            for d, sn in zip(live, snaps):
                ex.check(_ma_same(d, sn), f'{op}:earlier-datasets-unchanged')
            if op != 'mask' and isinstance(res, Dataset):
                # the result is the plain array operation on the cells that are not masked, and masked where the operand was
                cd, cm = np.ma.getdata(cur.value), np.ma.getmaskarray(cur.value)
                ce = np.ma.getdata(cur.error)
                want_v, want_e, want_m = {'add_ds': (cd + 1., np.sqrt(ce ** 2 + 1.), cm), 'mul_ds': (cd * 2., None, cm),
                                          'sub_c': (cd - 1.5, ce, cm), 'copy': (cd, ce, cm), 'squeeze': (np.squeeze(cd), np.squeeze(ce), np.squeeze(cm)),
                                          'slice': ((cd[1:], ce[1:], cm[1:]) if cur.value.ndim == 1 else (cd, ce, cm))}[op]
                shape_ok = np.shape(res.value) == np.shape(want_v) and np.shape(res.error) == np.shape(want_v)
                ex.check(shape_ok, f'{op}:result-shape')
                if shape_ok:
                    rm = np.ma.getmaskarray(res.value)
                    ex.check(np.array_equal(rm, want_m) and np.array_equal(np.ma.getmaskarray(res.error), want_m),
                             f'{op}:result-masked-exactly-where-the-operand-was')
                    keep = ~np.asarray(want_m, dtype=bool)
                    ex.check(np.allclose(np.ma.getdata(res.value)[keep], np.asarray(want_v)[keep]), f'{op}:result-values')
                    if want_e is not None:
                        ex.check(np.allclose(np.ma.getdata(res.error)[keep], np.asarray(want_e)[keep]), f'{op}:result-errors')
            if not isinstance(res, Dataset) or res.value.ndim != 1:
                return
            live.append(res)
    return harness


WIDE = False


def float_harness(ex):
    """float-level job (the real-number model cannot see rounding): for concrete values and awkward constants -- not powers of two -- the
    VALUE of dataset (+ - * /) constant / array / dataset is bit for bit the value of the plain NumPy operation on the value arrays, for
    float64, float32 and integer-typed datasets; errors agree with the first-order formula to 1e-12 relative"""
    from valjean.eponine.dataset import Dataset
    vals = [np.array([49., 1., 0.1, 3., 7e-3, 2.5e8]), np.array([49., 1., 0.1, 3., 7e-3, 2.5e8], dtype=np.float32),
            np.array([49, 1, 10, 3, 700, 250000], dtype=np.int32)][ex.choice(3, 'dtype')]
    errs = np.array([1., 0.5, 0.01, 0., 1e-4, 1e3])
    consts = [3, 7, 10, 49, 0.1, -3, 1e-3, np.float64(7.), np.int64(49)]
    if WIDE:          # thorough tier
        consts += [11, 13, 97, 1 / 3, 1e-7, 6.02e23, -0.7, np.float32(0.1), np.int32(-7), 1e-30, 255]
    c = consts[ex.choice(len(consts), 'constant')]
    op = ex.choice(4, 'operation')
    kind = ex.choice(3, 'right-operand')        # constant, array, dataset
    if kind == 0 and op < 2 and isinstance(c, np.generic) and not isinstance(c, float):
        return          # + and - refuse NumPy scalars that are not Python numbers with a documented TypeError
    ds = Dataset(vals.copy(), errs.copy(), name='ds')
    if kind == 0:
        right, rv, re_ = c, c, None
    elif kind == 1:
        rv = np.full(vals.shape, c, dtype=float) * (1 + np.arange(vals.size))
        right, re_ = rv.copy(), None
    else:
        rv = np.full(vals.shape, c, dtype=float) * (1 + np.arange(vals.size))
        re_ = np.abs(rv) * 0.01
        right = Dataset(rv.copy(), re_.copy(), name='other')
    fn = [lambda a, b: a + b, lambda a, b: a - b, lambda a, b: a * b, lambda a, b: a / b][op]
    with np.errstate(all='ignore'):
        res = fn(ds, right)
        want = fn(vals, rv)
    ex.check(isinstance(res, Dataset) and res.value.shape == want.shape and bool(np.array_equal(res.value, want, equal_nan=True)),
             'float-level:value-is-bit-for-bit-the-plain-array-operation')
    with np.errstate(all='ignore'):
        if op < 2:
            we = errs if re_ is None else np.sqrt(errs**2 + re_**2)
        elif re_ is None:
            we = errs * np.abs(rv) if op == 2 else errs / np.abs(rv)
        else:
            we = np.abs(want) * np.sqrt((errs / vals)**2 + (re_ / rv)**2)
    ex.check(bool(np.allclose(res.error, we, rtol=1e-6 if vals.dtype == np.float32 else 1e-12, atol=0, equal_nan=True)),
             'float-level:error-first-order-formula')
    ex.check(bool(np.array_equal(ds.value, vals)) and bool(np.array_equal(ds.error, errs)), 'float-level:operands-unchanged')


def _job_float(timeout_ms, seed=0, wide=False):
    global WIDE
    WIDE = wide
    return run_sym('f', float_harness, timeout_ms=timeout_ms, seed=seed,
                   require_checks=['float-level:value-is-bit-for-bit-the-plain-array-operation'])


def _job_mask(n, chain, timeout_ms, seed=0):
    return run_sym('m', make_mask_harness(n, chain), timeout_ms=timeout_ms, seed=seed,
                   require_checks=['mask:masked-cells'])


def _job(shape, binkind, chain, timeout_ms, seed=0):
    return run_sym(f'{shape}-{binkind}-chain{chain}', make_harness(shape, binkind, chain),
                   timeout_ms=timeout_ms, seed=seed)


def jobs(tier):
    out = []
    b = BOUNDS[tier]
    for s in b['shapes']:
        shape = eval(s)
        for bk in b['bins']:
            if bk != 'none' and not shape:
                continue
            out.append((f'{shape}-{bk}-chain1', _job,
                        dict(shape=shape, binkind=bk, chain=1, timeout_ms=20000 if tier == 'quick' else 120000)))
    out.append(('mask-n2-chain3', _job_mask, dict(n=2, chain=3, timeout_ms=20000)))
    out.append(('float-level', _job_float, dict(timeout_ms=20000, wide=(tier == 'thorough'))))
    if tier == 'thorough':
        out.append(('mask-n3-chain3', _job_mask, dict(n=3, chain=3, timeout_ms=20000)))
        out.append(('mask-n2-chain4', _job_mask, dict(n=2, chain=4, timeout_ms=20000)))
        for shape in [(2,), (1, 2)]:
            out.append((f'{shape}-edges-chain2', _job, dict(shape=shape, binkind='edges', chain=2, timeout_ms=120000)))
    return out


def replay(rp):
    name = rp['job']
    if name == 'float-level':
        global WIDE
        WIDE = True          # the pool of the thorough tier extends the one of the quick tier: indices agree
        return replay_sym(float_harness, rp['inputs'])
    if name.startswith('mask-'):
        n, chain = name.split('-')[1:]
        return replay_sym(make_mask_harness(int(n[1:]), int(chain.replace('chain', ''))), rp['inputs'])
    shape_s, rest = name.rsplit('-', 2)[0], name.rsplit('-', 2)[1:]
    shape = eval(shape_s)
    return replay_sym(make_harness(shape, rest[0], int(rest[1].replace('chain', ''))), rp['inputs'])
