"""C19 -- a failing command is never reported as done and its output is captured intact.

 E1 (symrun): the real run() / RunTask.run_task runner with subprocess.call replaced by a stub whose
    exit statuses are symbolic integers (any value, negative = killed by a signal) and which may fail
    to start the executable (OSError) at a solver-chosen position; it writes tags to the captured
    streams.  Real temporary directory for the captured files.
 E1 with z3 strings: the real sanitize_filename on a symbolic task name of ANY length: an accepted
    name is exactly one non-empty path component, so the output directory belongs to that task only.
    (CrossHair was tried first: it found the empty-name defect in a second but cannot CONFIRM the
    repaired code within minutes even for names of <= 2 characters, so it is not used for the verdict.)
"""
import os
import shutil
import tempfile
from engine.runner import run_sym, replay_sym, JobResult
from engine import chrun
from engine.symrun import oracle as O

PID = 'C19'
LEVEL = 'other'
TARGETS = ['valjean.cosette.run:run', 'valjean.cosette.run:make_cap_paths', 'valjean.cosette.run:RunTask.run_task',
           'valjean.cosette.run:RunTask.from_clis', 'valjean.path:sanitize_filename', 'valjean.path:ensure',
           'valjean.cosette.pythontask:PythonTask.do', 'valjean.cosette.code:CheckoutTask.__init__', 'valjean.cosette.code:BuildTask.__init__', 'valjean.cosette.code:BuildTask.cmake_build_sys']
BOUNDS = {'quick': {'commands': '<= 3 per task', 'executions': 'each task twice under the same output root', 'exit statuses': 'arbitrary integers (symbolic)', 'start-up failure': 'OSError at any position',
                    'task names': 'arbitrary strings of any length (z3 string theory); if the implementation passes the name to string-only library code: a pool of 22 awkward concrete names'},
          'thorough': {'commands': '<= 4 per task', 'exit statuses': 'arbitrary integers (symbolic)',
                       'task names': 'arbitrary strings of any length (z3 string theory); if the implementation passes the name to string-only library code: a pool of 22 awkward concrete names'}}
ASSUMPTIONS = ['subprocess.call is a stub: returns a symbolic integer status, or raises OSError (executable cannot be started); it writes one tag '
               'per stream; the real files are created in a temporary directory',
               'the conversion of an exception in do() into FAILED by the worker is decided in C02',
               'output directory = lexical join of output root and sanitized name (posixpath semantics); z3 sequence theory for the name']
OUTSIDE = ['real child processes, shells, signals']
EXPLANATION = ('bounded symbolic execution (symrun + z3 LIA) of the real command runner with symbolic exit statuses, plus CrossHair on the '
               'output-directory computation with a symbolic task name')
CH_FILE = os.path.join(os.path.dirname(os.path.abspath(__file__)), 'ch', 'ch_C19.py')


class _Cfg:
    def __init__(self, root):
        self.root = root

    def query(self, section, key):
        assert (section, key) == ('path', 'output-root')
        return self.root


def make_harness(n, via_task):
    def harness(ex):
        import valjean.cosette.run as runmod
        from valjean.cosette.task import TaskStatus
        from valjean.cosette.env import Env
        codes = [ex.int(f'code{i}') for i in range(n)]
        oserr_at = ex.choice(n + 1, 'oserror-at') - 1        # -1: every executable can be started
        calls = []
        run_tag = ['']

        def call_stub(cli, **kw):
            k = len(calls)
            calls.append(cli)
            if k == oserr_at:
                raise FileNotFoundError(2, 'No such file or directory', cli[0])
            kw['stdout'].write(f'{run_tag[0]}OUT{k}\n')
            kw['stdout'].flush()
            kw['stderr'].write(f'{run_tag[0]}ERR{k}\n')
            kw['stderr'].flush()
            return codes[k]
        clis = [[f'cmd{i}', 'arg'] for i in range(n)]
        saved = runmod.call
        runmod.call = call_stub
        tmp = tempfile.mkdtemp(prefix='verif_c19_')
        try:
            raised = None
            if via_task:
                task = runmod.RunTask.from_clis('mytask', clis)
                try:
                    upd, status = task.do(Env(), _Cfg(tmp))
                    results = upd['mytask']['return_codes']
                except OSError as e:
                    raised = e
            else:
                with open(os.path.join(tmp, 'o'), 'w') as so, open(os.path.join(tmp, 'e'), 'w') as se:
                    try:
                        results, status, _ = runmod.run(clis, so, se)
                    except OSError as e:
                        raised = e
            # which commands should have run?  (decided by the path: bool() of the symbolic comparisons)
            expect = []
            fail_seen = False
            for i in range(n):
                if i == oserr_at:
                    break
                expect.append(i)
                if bool(codes[i] != 0):
                    fail_seen = True
                    break
            start_failure = oserr_at >= 0 and len(expect) == oserr_at and not fail_seen
            if start_failure:
                ex.check(raised is not None, 'startup-failure-makes-the-task-fail-not-pass')
                ex.check(len(calls) == oserr_at + 1, 'no-command-after-a-startup-failure')
                return
            ex.check(raised is None, 'no-exception-when-every-command-starts')
            if raised is not None:
                return
            ex.check(len(calls) == len(expect), 'commands-run-are-the-prefix-up-to-the-first-failure')
            ex.check(len(results) == len(expect) and all(r is codes[i] or bool(O.same(r, codes[i])) for r, i in zip(results, expect)),
                     'recorded-return-codes-are-those-of-the-commands-run')
            ex.check((status == TaskStatus.DONE) == (not fail_seen), 'DONE-iff-every-command-exited-with-zero')
            ex.check(status in (TaskStatus.DONE, TaskStatus.FAILED), 'status-is-DONE-or-FAILED')
            if via_task:
                d = upd['mytask']
                odir = os.path.join(tmp, 'mytask')
                ex.check(d['output_dir'] == odir and os.path.dirname(d['stdout']) == os.path.realpath(odir)
                         and os.path.dirname(d['stderr']) == os.path.realpath(odir), 'output-directory-belongs-to-the-task')
                out = open(d['stdout']).read()
                err = open(d['stderr']).read()
                ex.check(out == ''.join(f'OUT{k}\n' for k in expect), 'captured-stdout-intact-and-in-order')
                ex.check([ln for ln in err.splitlines() if ln.startswith('ERR')] == [f'ERR{k}' for k in expect],
                         'captured-stderr-intact-and-in-order')
                ex.check(d['clis'] == clis, 'recorded-command-lines')
                # the same task executed again under the same output root (a second `valjean run` in the same directory):
                # the captured files hold the output of THIS execution only
                del calls[:]
                run_tag[0] = 'again-'
                upd2, status2 = task.do(Env(), _Cfg(tmp))
                d2 = upd2['mytask']
                ex.check(status2 == status and d2['stdout'] == d['stdout'] and d2['stderr'] == d['stderr'],
                         'second-execution:same-status-and-capture-files')
                out2 = open(d2['stdout']).read()
                err2 = open(d2['stderr']).read()
                ex.check(out2 == ''.join(f'again-OUT{k}\n' for k in expect), 'second-execution:captured-stdout-is-that-of-this-execution')
                ex.check([ln for ln in err2.splitlines() if 'ERR' in ln] == [f'again-ERR{k}' for k in expect],
                         'second-execution:captured-stderr-is-that-of-this-execution')
        finally:
            runmod.call = saved
            shutil.rmtree(tmp, ignore_errors=True)
    return harness


def checkout_harness(ex):
    """CheckoutTask (code.py): git clone then git checkout through the same runner; symbolic exit statuses"""
    import valjean.cosette.run as runmod
    from valjean.cosette.code import CheckoutTask
    from valjean.cosette.task import TaskStatus
    from valjean.cosette.env import Env
    codes = [ex.int('clone-status'), ex.int('checkout-status')]
    calls = []

    def call_stub(cli, **kw):
        calls.append(list(cli))
        return codes[len(calls) - 1]
    saved = runmod.call
    runmod.call = call_stub
    tmp = tempfile.mkdtemp(prefix='verif_c19_')
    try:
        class _C:
            def query(self, sec, key):
                return tmp
        task = CheckoutTask('co', repository='/some/repo', checkout_root=tmp, log_root=tmp)
        upd, status = task.do(Env(), _C())
        clone_ok = not bool(codes[0] != 0)
        if not clone_ok:
            ex.check(len(calls) == 1, 'checkout:no-command-after-the-failed-clone')
            ex.check(status == TaskStatus.FAILED, 'checkout:failed-clone-makes-the-task-FAILED')
        else:
            ex.check(len(calls) == 2 and calls[1][1] == 'checkout', 'checkout:both-commands-run-in-order')
            ex.check((status == TaskStatus.DONE) == (not bool(codes[1] != 0)), 'checkout:DONE-iff-both-commands-exited-with-zero')
    finally:
        runmod.call = saved
        shutil.rmtree(tmp, ignore_errors=True)


def build_harness(ex):
    """BuildTask (code.py): cmake configure, then cmake --build, through the same runner; symbolic exit statuses"""
    import valjean.cosette.run as runmod
    from valjean.cosette.code import BuildTask
    from valjean.cosette.task import TaskStatus
    from valjean.cosette.env import Env
    codes = [ex.int('configure-status'), ex.int('build-status')]
    calls = []

    def call_stub(cli, **kw):
        calls.append(list(cli))
        kw['stdout'].write(f'OUT{len(calls)}\n')
        return codes[len(calls) - 1]
    saved = runmod.call
    runmod.call = call_stub
    tmp = tempfile.mkdtemp(prefix='verif_c19_')
    try:
        class _C:
            def query(self, sec, key):
                return tmp
        targets = ['install'] if ex.flag('with-a-target') else None
        task = BuildTask('bld', source=tmp, build_root=tmp, log_root=tmp, targets=targets)
        upd, status = task.do(Env(), _C())
        conf_ok = not bool(codes[0] != 0)
        if not conf_ok:
            ex.check(len(calls) == 1, 'build:no-command-after-the-failed-configure-step')
            ex.check(status == TaskStatus.FAILED, 'build:failed-configure-makes-the-task-FAILED')
        else:
            ex.check(len(calls) == 2 and calls[1][1] == '--build' and (targets is None or calls[1][-2:] == ['--target', 'install']),
                     'build:both-commands-run-in-order')
            ex.check((status == TaskStatus.DONE) == (not bool(codes[1] != 0)), 'build:DONE-iff-both-commands-exited-with-zero')
        log = open(upd['bld']['build_log']).read()
        ex.check([ln for ln in log.splitlines() if ln.startswith('OUT')] == [f'OUT{k + 1}' for k in range(len(calls))],
                 'build:log-holds-the-output-of-the-commands-run')
    finally:
        runmod.call = saved
        shutil.rmtree(tmp, ignore_errors=True)


def _job_build(timeout_ms, seed=0):
    return run_sym('x', build_harness, timeout_ms=timeout_ms, seed=seed,
                   require_checks=['build:failed-configure-makes-the-task-FAILED'])


def _job_checkout(timeout_ms, seed=0):
    return run_sym('x', checkout_harness, timeout_ms=timeout_ms, seed=seed,
                   require_checks=['checkout:failed-clone-makes-the-task-FAILED'])


def _job(n, via_task, timeout_ms, seed=0):
    return run_sym('x', make_harness(n, via_task), timeout_ms=timeout_ms, seed=seed,
                   require_checks=['DONE-iff-every-command-exited-with-zero'])


NAME_POOL = ['', '.', '..', 'a', 'a/b', '/', '/a', 'a/', 'a' + chr(0) + 'b', chr(0), 'a.b', '.a', '..a', 'a..', '...', ' ', 'a b', 'a/..', '../a', '~', '-', 'é']


def name_harness(ex):
    """real sanitize_filename on a symbolic task name of ANY length (z3 strings): an accepted name is a
    single non-empty path component, so <output-root>/<name> is a directory of that task only"""
    from valjean.path import sanitize_filename
    import z3
    name = ex.str('name')
    other = ex.str('other')
    concrete = None
    try:
        r = sanitize_filename(name)
        ok = True
    except ValueError:
        ok = False
    except TypeError as e:
        if not (ex.symbolic and 'SStr' in str(e)):
            raise
        # the implementation hands the name to code that only takes real strings (pathlib, os.path ...): the symbolic string cannot
        # follow.  Decide on a pool of awkward concrete names instead (stated bound of this fallback), tied to the symbolic variable so
        # that a counterexample replays with that very name
        concrete = NAME_POOL[ex.choice(len(NAME_POOL), 'concrete-name')]
        ex.side(name.t == z3.StringVal(concrete))
        try:
            r = sanitize_filename(concrete)
            ok = True
        except ValueError:
            ok = False
    if concrete is not None:
        single = concrete != '' and '/' not in concrete and chr(0) not in concrete and concrete not in ('.', '..')
        if ok:
            ex.check(r == concrete, 'sanitize-returns-the-name-unchanged')
            ex.check(single, 'accepted-name-is-one-non-empty-path-component')
        else:
            ex.check(not single, 'only-unusable-names-are-rejected')
        return
    if ex.symbolic:
        from engine.symrun.core import SBool, SStr
        single = z3.And(z3.Length(name.t) > 0, z3.Not(z3.Contains(name.t, z3.StringVal('/'))),
                        z3.Not(z3.Contains(name.t, z3.StringVal(chr(0)))), name.t != z3.StringVal('.'),
                        name.t != z3.StringVal('..'))
        if ok:
            ex.check(r is name, 'sanitize-returns-the-name-unchanged')
            ex.check(SBool(single), 'accepted-name-is-one-non-empty-path-component')
            # hence, for any other accepted name, the directories differ and neither contains the other
            d1 = z3.Concat(z3.StringVal('/root/'), name.t)
            d2 = z3.Concat(z3.StringVal('/root/'), other.t)
            other_ok = z3.And(z3.Length(other.t) > 0, z3.Not(z3.Contains(other.t, z3.StringVal('/'))))
            ex.check(SBool(z3.Implies(z3.And(other_ok, name.t != other.t),
                                      z3.And(d1 != d2, z3.Not(z3.PrefixOf(z3.Concat(d1, z3.StringVal('/')), d2)),
                                             z3.Not(z3.PrefixOf(z3.Concat(d2, z3.StringVal('/')), d1))))),
                     'directories-of-different-names-are-different-and-not-nested')
        else:
            ex.check(SBool(z3.Not(single)), 'only-unusable-names-are-rejected')
    else:
        import posixpath
        single = name != '' and '/' not in name and chr(0) not in name and name not in ('.', '..')
        if ok:
            ex.check(r == name, 'sanitize-returns-the-name-unchanged')
            ex.check(single, 'accepted-name-is-one-non-empty-path-component')
            d = posixpath.normpath(posixpath.join('/root', name))
            ex.check(d.startswith('/root/') and posixpath.dirname(d) == '/root', 'accepted-name-is-one-non-empty-path-component')
        else:
            ex.check(not single, 'only-unusable-names-are-rejected')


def _job_name(timeout_ms, seed=0):
    return run_sym('x', name_harness, timeout_ms=timeout_ms, seed=seed,
                   require_checks=['accepted-name-is-one-non-empty-path-component'])


def jobs(tier):
    out = []
    for n in ((1, 2, 3) if tier == 'quick' else (1, 2, 3, 4)):
        for via in (False, True):
            out.append((f'run-n{n}-task{int(via)}', _job, dict(n=n, via_task=via, timeout_ms=20000)))
    out.append(('task-name', _job_name, dict(timeout_ms=30000)))
    out.append(('checkout-task', _job_checkout, dict(timeout_ms=20000)))
    out.append(('build-task', _job_build, dict(timeout_ms=20000)))
    return out


def replay(rp):
    if rp['job'] == 'task-name':
        return replay_sym(name_harness, rp['inputs'])
    if rp['job'] == 'checkout-task':
        return replay_sym(checkout_harness, rp['inputs'])
    if rp['job'] == 'build-task':
        return replay_sym(build_harness, rp['inputs'])
    n = int(rp['job'].split('-')[1][1:])
    return replay_sym(make_harness(n, rp['job'].endswith('task1')), rp['inputs'])
