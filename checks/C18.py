"""C18 -- diagnostic statistics count every task and every test result exactly once.

Engine E1 (symrun).  The real TestStatsTasks / TestStatsTests / TestStatsTestsByLabels (+ results)
run on collections whose statuses and names are solver-chosen, whose test verdicts are symbolic
booleans (stub TestResult with a symbolic __bool__) and whose label VALUES are SKey proxies
(arbitrary hashable/sortable values; the index partitions them by solver-decided equality).
Oracle: direct counting in the harness.
"""
from engine.runner import run_sym, replay_sym, known_active, JobResult
from engine.symrun import oracle as O

PID = 'C18'
LEVEL = 'other'
TARGETS = ['valjean.gavroche.diagnostics.stats:TestStatsTasks.evaluate',
           'valjean.gavroche.diagnostics.stats:TestResultStatsTasks.__bool__',
           'valjean.gavroche.diagnostics.stats:TestStatsTests.evaluate',
           'valjean.gavroche.diagnostics.stats:TestResultStatsTests.__bool__',
           'valjean.gavroche.diagnostics.stats:TestStatsTestsByLabels._build_labels_lod',
           'valjean.gavroche.diagnostics.stats:TestStatsTestsByLabels._build_index',
           'valjean.gavroche.diagnostics.stats:TestStatsTestsByLabels._rloop_over_labels',
           'valjean.gavroche.diagnostics.stats:TestStatsTestsByLabels._stats_for_labels',
           'valjean.gavroche.diagnostics.stats:TestStatsTestsByLabels.evaluate',
           'valjean.gavroche.diagnostics.stats:TestResultStatsTestsByLabels.__bool__',
           'valjean.gavroche.diagnostics.stats:TestResultStatsTestsByLabels.oracles',
           'valjean.gavroche.diagnostics.stats:TestResultStatsTestsByLabels.nb_missing_labels',
           'valjean.eponine.browser:Index.keep_only']
BOUNDS = {
    'quick': {'tasks': '<= 3 task environments, any of the 5 statuses, names from a pool of 2 (repeats allowed)',
              'tests': '<= 3 tasks, each without result or with 1-2 results; symbolic verdicts; names from a pool of 2',
              'by_labels': "<= 3 results over label keys {k0,k1} (+ a job with the reserved keys '_result'/'_test_name' as user labels; + three-level selections over {k0,k1,k2} with 2-3 results), "
                           'symbolic presence, arbitrary label values (symbolic equality/order), every ordered non-empty selection'},
    'thorough': {'tasks': '<= 4 task environments', 'tests': '<= 3 tasks with 0-2 results each, <= 4 tasks with 0-1',
                 'by_labels': '<= 4 results over {k0,k1}; <= 3 over {k0,k1,_result}; three-level selections over {k0,k1,k2} with <= 3 results'},
}
ASSUMPTIONS = ['test verdicts are symbolic booleans behind a stub TestResult; label values are SKey proxies (constant hash, symbolic == and <)',
               'results that are not TestResult instances are outside (the statement quantifies over results with verdicts)',
               'by labels: "everything it observed" = the results carrying all requested labels; a requested label carried by no result '
               'raises the documented TestStatsTestsByLabelsException',
               'known finding C18-empty-observation: an EMPTY observation makes the task/test summaries False (the statement asks True); excluded from the query while listed']
OUTSIDE = ['more than 4 tasks/results', 'NOT_A_TEST results']
EXPLANATION = ('bounded symbolic execution (symrun + z3) of the real diagnostic statistics code with symbolic verdicts and '
               'symbolic-equality label values; counts, partitions and verdicts decided per path')

KNOWN_EMPTY = 'C18-empty-observation'


def _statuses():
    from valjean.cosette.task import TaskStatus
    return list(TaskStatus)


def _mk_stub_classes():
    from valjean.gavroche.test import Test, TestResult

    class _T(Test):
        def evaluate(self):
            raise NotImplementedError

        def data(self):
            yield from super().data()

    class _R(TestResult):
        def __init__(self, test, verdict):
            super().__init__(test)
            self.verdict = verdict

        def __bool__(self):
            return bool(self.verdict)
    return _T, _R


def _names_of(lst):
    return sorted(str(x) for x in lst)


def make_tasks(n):
    def harness(ex):
        from valjean.gavroche.diagnostics.stats import TestStatsTasks
        from valjean.cosette.task import TaskStatus
        sts = _statuses()
        trs, expect = [], {}
        for i in range(n):
            name = ['t0', 't1'][ex.choice(2, f'name{i}')]
            st = sts[ex.choice(len(sts), f'status{i}')]
            extra = {'result': [1]} if ex.flag(f'hasres{i}') else {}
            trs.append((name, dict(extra, status=st)))
            expect.setdefault(st, []).append(name)
        res = TestStatsTasks(name='stats', task_results=trs).evaluate()
        cl = res.classify
        ok = set(cl.keys()) == set(expect.keys()) and all(_names_of(cl[k]) == sorted(v) for k, v in expect.items())
        ex.check(ok, 'tasks:each-task-once-under-its-status')
        want = all(st == TaskStatus.DONE for st in expect)
        if n == 0 and known_active(KNOWN_EMPTY):
            ex.note('known', KNOWN_EMPTY)
        else:
            ex.check(bool(res) == want, 'tasks:successful-iff-everything-observed-succeeded')
            _still_after_the_report(ex, res, want, 'tasks:successful-iff-everything-observed-succeeded')
    return harness


def _still_after_the_report(ex, res, want, label):
    """the summary is still successful exactly when everything succeeded once the report has shown it (the table representation
    at full detail reads the recorded classification)"""
    from valjean.javert.representation import Representation, FullTableRepresenter
    from valjean.javert.verbosity import Verbosity
    try:
        Representation(FullTableRepresenter(), verbosity=Verbosity.FULL_DETAILS)(res)
    except Exception as e:      # noqa -- a representer that crashes is C12's business
        ex.note('representation-raised', type(e).__name__)
    ex.check(bool(res) == want, label + '-also-after-the-report-has-shown-it')


def make_tests(n, maxres):
    def harness(ex):
        from valjean.gavroche.diagnostics.stats import TestStatsTests, TestOutcome
        _T, _R = _mk_stub_classes()
        trs = []
        exp_s, exp_f, exp_m = [], [], []
        verdicts = []
        for i in range(n):
            tname = ['task0', 'task1'][ex.choice(2, f'tname{i}')]
            nres = ex.choice(maxres + 2, f'nres{i}') - 1          # -1: no 'result' key
            if nres < 0:
                trs.append((tname, {'status': 'x'}))
                exp_m.append(tname)
                continue
            rl = []
            for j in range(nres):
                nm = ['a', 'b'][ex.choice(2, f'rname{i}_{j}')]
                v = ex.bool(f'verdict{i}_{j}')
                rl.append(_R(_T(name=nm), v))
                verdicts.append((nm, v))
            trs.append((tname, {'status': 'x', 'result': rl}))
        res = TestStatsTests(name='stats', task_results=trs).evaluate()
        cl = res.classify
        # the real code has called bool() on every verdict: they are decided on this path
        for nm, v in verdicts:
            (exp_s if bool(v) else exp_f).append(nm)
        got = {k: _names_of(v) for k, v in cl.items() if len(v)}
        want = {}
        if exp_s:
            want[TestOutcome.SUCCESS] = sorted(exp_s)
        if exp_f:
            want[TestOutcome.FAILURE] = sorted(exp_f)
        if exp_m:
            want[TestOutcome.MISSING] = sorted(exp_m)
        ex.check(got == want, 'tests:each-result-once-by-verdict-and-missing-tasks')
        observed_nothing = not (exp_s or exp_f or exp_m)
        want_v = not exp_f and not exp_m
        if observed_nothing and known_active(KNOWN_EMPTY):
            ex.note('known', KNOWN_EMPTY)
        else:
            ex.check(bool(res) == want_v, 'tests:successful-iff-everything-observed-succeeded')
            _still_after_the_report(ex, res, want_v, 'tests:successful-iff-everything-observed-succeeded')
    return harness


def make_bylabels(n, keys, sel=None, by3=None, concrete=None):
    import itertools
    selections = [s for r in (1, 2) for s in itertools.permutations(['k0', 'k1'], r)]
    if by3 is not None:           # three-level selections: a fixed ordered selection, every result but the last carries every label
        selections, sel = [tuple(by3)], 0

    def harness(ex):
        from valjean.gavroche.diagnostics.stats import (TestStatsTestsByLabels, TestStatsTestsByLabelsException)
        _T, _R = _mk_stub_classes()
        by = selections[ex.choice(len(selections), 'by_labels')] if sel is None else selections[sel]
        ex.note('by', by)
        results, rl_by_task = [], []
        for i in range(n):
            labels = {}
            for k in keys:
                if (by3 is not None and i < n - 1) or ex.flag(f'r{i}has{k}'):
                    # symbolic value (equality only), or one of a few concrete values of DIFFERENT types (None, text, number)
                    labels[k] = ex.key(f'r{i}{k}') if concrete is None else concrete[ex.choice(len(concrete), f'r{i}{k}value')]
            nm = ['a', 'a', 'b', 'b'][i]        # repeated test names are part of the bound
            v = ex.bool(f'verdict{i}')
            r = _R(_T(name=nm, labels=labels), v)
            results.append((labels, v, r))
        # spread over tasks: first task gets the first result(s), one task without result
        trs = [('task0', {'result': [r for _, _, r in results[:1]]}), ('task1', {'status': 'no result'}),
               ('task2', {'result': [r for _, _, r in results[1:]]})]
        test = TestStatsTestsByLabels(name='stats', task_results=trs, by_labels=by)
        carried = [i for i, (lab, _, _) in enumerate(results) if all(k in lab for k in by)]
        any_has = {k: any(k in lab for lab, _, _ in results) for k in by}
        try:
            res = test.evaluate()
            raised = False
        except TestStatsTestsByLabelsException:
            raised = True
        ex.check(raised == (not all(any_has.values())), 'bylabels:raises-exactly-when-a-requested-label-is-carried-by-no-result')
        if raised:
            return
        cl = res.classify
        # group the carrying results by (decided) equality of their value tuples
        groups = []
        for i in carried:
            tup = tuple(results[i][0][k] for k in by)
            for g in groups:
                if all(bool(a == b) for a, b in zip(g[0], tup)):
                    g[1].append(i)
                    break
            else:
                groups.append((tup, [i]))
        ok = len(cl) == len(groups)
        ex.check(ok, 'bylabels:one-entry-per-label-combination')
        if ok:
            good = True
            used = set()
            for entry in cl:
                lt = entry['labels']
                hit = [gi for gi, g in enumerate(groups) if len(lt) == len(g[0]) and
                       all(bool(a == b) for a, b in zip(g[0], lt))]
                if len(hit) != 1 or hit[0] in used:
                    good = False
                    continue
                used.add(hit[0])
                idx = groups[hit[0]][1]
                n_ok = sum(1 for i in idx if bool(results[i][1]))
                if entry['total'] != len(idx) or entry['OK'] != n_ok or entry['KO'] != len(idx) - n_ok \
                        or entry['OK'] + entry['KO'] != entry['total']:
                    good = False
            ex.check(good, 'bylabels:OK-plus-KO-equals-total-equals-results-carrying-the-labels')
            ex.check(res.nb_missing_labels() == n - len(carried), 'bylabels:nb_missing_labels-is-the-rest')
            orc = res.oracles()
            ex.check(len(orc) == len(cl) and all(bool(o) == (e['OK'] == e['total']) for o, e in zip(orc, cl)),
                     'bylabels:oracles-per-combination')
            want_v = all(bool(results[i][1]) for i in carried)
            ex.check(bool(res) == want_v, 'bylabels:successful-iff-every-result-carrying-the-labels-succeeded')
    return harness


def _job(kind, timeout_ms, seed=0, **p):
    h = make_tasks(p['n']) if kind == 'tasks' else make_tests(p['n'], p['maxres']) if kind == 'tests' \
        else make_bylabels(p['n'], p['keys'], p.get('sel'), p.get('by3'), p.get('concrete'))
    return run_sym('x', h, timeout_ms=timeout_ms, seed=seed, max_paths=2000000)


def _known_job(seed=0):
    """re-confirm the listed known finding on the real code (concrete witness)"""
    r = JobResult('known')
    if known_active(KNOWN_EMPTY):
        from valjean.gavroche.diagnostics.stats import TestStatsTasks, TestStatsTests
        v1 = bool(TestStatsTasks(name='s', task_results=[]).evaluate())
        v2 = bool(TestStatsTests(name='s', task_results=[]).evaluate())
        if v1 is False and v2 is False:
            r.known.append((KNOWN_EMPTY, 'TestStatsTasks / TestStatsTests on an empty observation answer False '
                                         '(nothing failed; the by-labels summary answers True)'))
        else:
            r.inconclusive.append(f'known finding {KNOWN_EMPTY} no longer reproduces: remove it from known_findings.json')
    r.stats = {'paths': 1, 'solver_queries': 0}
    return r


# user labels that carry names other parts of valjean reserve for themselves ('index' / 'results' of the Browser), selected on
RESERVED_NAME_JOBS = [('bylabels', dict(n=3, keys=('k0',), by3=('k0',), concrete=(None, 'x', 1))),
                      ('bylabels', dict(n=2, keys=('k0', 'k1'), by3=('k1', 'k0'), concrete=(None, 'x', 1))),
                      ('bylabels', dict(n=2, keys=('k0', 'index'), by3=('index',))),
                      ('bylabels', dict(n=2, keys=('k0', 'results'), by3=('results', 'k0'))),
                      ('bylabels', dict(n=3, keys=('index', 'results'), by3=('index', 'results')))]


def jobs(tier):
    out = [('known-findings', _known_job, {})]
    t = 20000
    if tier == 'quick':
        plan = [('tasks', dict(n=0)), ('tasks', dict(n=1)), ('tasks', dict(n=2)), ('tasks', dict(n=3)),
                ('tests', dict(n=0, maxres=2)), ('tests', dict(n=1, maxres=2)), ('tests', dict(n=2, maxres=2)),
                ('tests', dict(n=3, maxres=1)),
                ('bylabels', dict(n=1, keys=('k0', 'k1'))), ('bylabels', dict(n=2, keys=('k0', 'k1'))),
                ('bylabels', dict(n=3, keys=('k0', 'k1'))), ('bylabels', dict(n=2, keys=('k0', 'k1', '_result'))),
                ('bylabels', dict(n=2, keys=('k0', 'k1', '_test_name'))),
                ('bylabels', dict(n=2, keys=('k0', 'k1', 'k2'), by3=('k0', 'k1', 'k2'))),
                ('bylabels', dict(n=3, keys=('k0', 'k1', 'k2'), by3=('k2', 'k0', 'k1')))] + RESERVED_NAME_JOBS
    else:
        plan = [('tasks', dict(n=i)) for i in range(5)] + \
               [('tests', dict(n=0, maxres=2)), ('tests', dict(n=1, maxres=2)), ('tests', dict(n=2, maxres=2)),
                ('tests', dict(n=3, maxres=2)), ('tests', dict(n=4, maxres=1))] + \
               [('bylabels', dict(n=i, keys=('k0', 'k1'))) for i in (1, 2, 3, 4)] + \
               [('bylabels', dict(n=3, keys=('k0', 'k1', '_result'))), ('bylabels', dict(n=3, keys=('k0', 'k1', '_test_name'))),
                ('bylabels', dict(n=2, keys=('k0', 'k1', 'k2'), by3=('k0', 'k1', 'k2'))),
                ('bylabels', dict(n=3, keys=('k0', 'k1', 'k2'), by3=('k2', 'k0', 'k1'))),
                ('bylabels', dict(n=3, keys=('k0', 'k1', 'k2'), by3=('k0', 'k1', 'k2'))),
                ('bylabels', dict(n=3, keys=('k0', 'k1', 'k2'), by3=('k1', 'k2', 'k0')))] + RESERVED_NAME_JOBS
    for kind, p in plan:
        name = kind + '-' + '-'.join(f'{k}{"+".join(map(str, v)) if isinstance(v, tuple) else v}' for k, v in p.items())
        if kind == 'bylabels' and p['n'] >= 2 and 'by3' not in p:
            for sel in range(4):            # one job per ordered label selection (parallelism)
                out.append((f'{name}-sel{sel}', _job, dict(kind=kind, timeout_ms=t, sel=sel, **p)))
        else:
            out.append((name, _job, dict(kind=kind, timeout_ms=t, **p)))
    return out


def replay(rp):
    for j in jobs('thorough') + jobs('quick'):
        if j[0] == rp['job']:
            p = dict(j[2])
            kind = p.pop('kind')
            h = make_tasks(p['n']) if kind == 'tasks' else make_tests(p['n'], p['maxres']) if kind == 'tests' \
                else make_bylabels(p['n'], p['keys'], p.get('sel'), p.get('by3'), p.get('concrete'))
            return replay_sym(h, rp['inputs'])
    raise KeyError(rp['job'])
