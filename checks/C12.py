"""C12 -- a rendered report shows a failure mark exactly for the results that failed.

Engine E1 (symrun): result kind, failing pattern (which bins of which dataset differ: symbolic
booleans), verbosity and table slice are solver-chosen; the real representers, TableTemplate and
RstTable code produce the templates and the reStructuredText, which are compared with the pattern.
"""
import re
import numpy as np
from engine.runner import run_sym, replay_sym
from checks.javert_common import build_result, KINDS

PID = 'C12'
LEVEL = 'other'
TARGETS = ['valjean.javert.table_repr:repr_testresultequal', 'valjean.javert.table_repr:repr_equal',
           'valjean.javert.table_repr:repr_testresultapproxequal', 'valjean.javert.table_repr:repr_approx_equal',
           'valjean.javert.table_repr:repr_testresultstudent', 'valjean.javert.table_repr:repr_student',
           'valjean.javert.table_repr:repr_student_intermediate', 'valjean.javert.table_repr:repr_bins',
           'valjean.javert.table_repr:repr_testresultbonferroni', 'valjean.javert.table_repr:repr_bonferroni',
           'valjean.javert.table_repr:repr_testresultholmbonferroni', 'valjean.javert.table_repr:repr_holm_bonferroni',
           'valjean.javert.table_repr:repr_testresultmetadata', 'valjean.javert.table_repr:repr_testresultstats',
           'valjean.javert.table_repr:repr_testresultstatstestsbylabels', 'valjean.javert.table_repr:repr_testresultfailed',
           'valjean.javert.representation:Representation.__call__', 'valjean.javert.representation:TableRepresenter.__call__',
           'valjean.javert.representation:FullTableRepresenter.repr_testresultbonferroni',
           'valjean.javert.templates:TableTemplate.__init__', 'valjean.javert.templates:TableTemplate.__getitem__',
           'valjean.javert.templates:TableTemplate.join', 'valjean.javert.templates:TableTemplate.copy',
           'valjean.javert.rst:RstTable.format_columns', 'valjean.javert.rst:RstTable.highlight', 'valjean.javert.rst:RstTable.transpose',
           'valjean.javert.rst:Rst.format_result']
BOUNDS = {'quick': {'kinds': KINDS, 'datasets': '1-d 3 bins with 1 or 2 compared datasets; 2-d (2,2) with 1 dataset', 'failing pattern': 'every subset of bins',
                    'verbosity': 'all 6 levels', 'representers': ['TableRepresenter', 'FullTableRepresenter'],
                    'slices': 'every slice of a 3-row table with step 1, 2, -1, -2; join of a table with such a slice',
                    'joins of result tables': 'tables of two results of the same kind (Student, Bonferroni, metadata, the three statistics kinds) joined at DEFAULT / INTERMEDIATE / FULL_DETAILS'},
          'thorough': {'kinds': KINDS, 'datasets': 'as quick + 2-d with 2 datasets + scalar', 'verbosity': 'all 6 levels'}}
ASSUMPTIONS = ['cell values are concrete distinct numbers so that rows can be recognised after formatting (Bonferroni / Holm 1-d jobs: optionally NaN in the first failing bin); the failing pattern, kind, verbosity and slice are solver-chosen',
               'a "mark" is the :hl: role or the word KO in the produced text; silent verbosity is outside the statement',
               'read-back clause: every produced table is parsed with docutils on each path (concrete text): no message of level >= warning, one table, '
               'headers, and per column the multiset of (cell text, highlighted) equal to the template (numbers up to 1e-6 relative); metadata values '
               'are numbers or free text with a trailing / leading blank',
               'detailed-table clause: asserted on the TableTemplate (rows, highlight masks) and on the RstTable text (marked rows carry the values of exactly the failing bins)']
OUTSIDE = ['plots', 'user-defined representers', "Sphinx's rendering of the parsed tables (docutils 0.18 parses them back; the :hl: role is declared in front of each piece)"]
EXPLANATION = ('bounded symbolic execution (symrun + z3: solver-chosen kinds, failing patterns, verbosities, slices) of the real table '
               'representers, templates and RstTable formatter; marks and highlighted rows compared with the failing pattern')


_RST = [None]


def _render(res, representer, verbosity):
    from valjean.javert.representation import Representation
    from valjean.javert.rst import Rst
    rst = Rst(Representation(representer, verbosity=verbosity))
    _RST[0] = rst
    templates = rst.representation(res)
    text = '\n'.join(str(rst.formatter.template(t)) for t in templates)
    return templates, text


def _has_mark(text):
    return ':hl:' in text or re.search(r'\bKO\b', text) is not None


def _row_has(ln, x):
    """some cell of the text row reads back as the number x"""
    for tok in re.split(r'\s{2,}|\s', ln.replace(':hl:`', ' ').replace('`', ' ')):
        try:
            if abs(float(tok) - float(x)) <= 1e-6 * max(1.0, abs(float(x))):
                return True
        except ValueError:
            continue
    return False


def _docutils_read(text):
    """parse a piece of reStructuredText with docutils -> (messages of level >= warning, tables as rows of (text, highlighted))"""
    import io
    from docutils.core import publish_doctree
    from docutils import nodes
    doctree = publish_doctree('.. role:: hl\n\n' + text, settings_overrides={'warning_stream': io.StringIO(), 'report_level': 2,
                                                                           'halt_level': 5, 'file_insertion_enabled': False})
    msgs = [m.astext() for m in doctree.traverse(nodes.system_message) if m['level'] >= 2]
    tables = []
    for tb in doctree.traverse(nodes.table):
        head = [[e.astext() for e in r.traverse(nodes.entry)] for th in tb.traverse(nodes.thead) for r in th.traverse(nodes.row)]
        body = []
        for tbody in tb.traverse(nodes.tbody):
            for r in tbody.traverse(nodes.row):
                body.append([(e.astext(), any('hl' in n.get('classes', []) for n in e.traverse(nodes.inline)))
                             for e in r.traverse(nodes.entry)])
        tables.append((head, body))
    return msgs, tables


def _same_cell(got, want):
    g, w = str(got).strip(), str(want).strip()
    if g == w:
        return True
    try:
        return abs(float(g) - float(w)) <= 1e-6 * max(1.0, abs(float(w)))
    except ValueError:
        return False


def _check_read_back(ex, fmt, templates):
    """the produced tables are valid reStructuredText whose cells (text and highlight) read back as the inputs"""
    from valjean.javert.templates import TableTemplate
    for t in templates:
        if not isinstance(t, TableTemplate):
            continue
        text = str(fmt(t))
        msgs, tables = _docutils_read(text)
        ex.check(not msgs, 'tables-are-valid-reStructuredText', detail='; '.join(msgs)[:300])
        ok = len(tables) == 1
        ex.check(ok, 'one-docutils-table-per-table-template', detail=f'{len(tables)} tables')
        if not ok or msgs:
            continue
        head, body = tables[0]
        cols = [np.asarray(c).reshape(-1) for c in t.columns]
        hls = [np.asarray(h).reshape(-1) for h in t.highlights]
        ex.check(len(body) == len(cols[0]) and all(len(r) == len(cols) for r in body), 'read-back:number-of-rows-and-columns',
                 detail=f'{len(body)} rows read, {len(cols[0])} expected')
        if len(body) != len(cols[0]) or not all(len(r) == len(cols) for r in body):
            continue
        ex.check(bool(head) and [h.strip() for h in head[0]] == [str(h).strip() for h in t.headers], 'read-back:headers')
        # the formatter walks arrays in memory order: compare each column as a multiset of (cell, highlighted)
        good = True
        for j, (c, h) in enumerate(zip(cols, hls)):
            left = [(c[i], bool(h[i])) for i in range(len(c))]
            for r in body:
                g, ghl = r[j]
                hit = [k for k, (w, whl) in enumerate(left) if whl == ghl and _same_cell(g, w)]
                if not hit:
                    good = False
                    break
                left.pop(hit[0])
        ex.check(good, 'read-back:cells-and-their-highlights-are-the-inputs')


def make_harness(kind, shape, nds):
    def harness(ex):
        from valjean.javert.verbosity import Verbosity
        from valjean.javert.representation import TableRepresenter, FullTableRepresenter
        from valjean.javert.templates import TableTemplate
        # Bonferroni / Holm: optionally a NaN cell in the first failing bin (an undefined p-value is rejected, and must be marked)
        res, info = build_result(ex, kind, shape, nds, True, with_nan=(kind in ('bonferroni', 'holm') and shape == '1d'))
        verbs = list(Verbosity)
        v = verbs[ex.choice(len(verbs), 'verbosity')]
        rep = [TableRepresenter, FullTableRepresenter][ex.choice(2, 'representer')]()
        ex.note('verbosity', v.name)
        try:
            templates, text = _render(res, rep, v)
        except Exception as e:      # noqa
            ex.check(False, 'representation-does-not-crash', detail=f'{type(e).__name__}: {e}')
            return
        verdict = bool(res)
        ex.check(verdict == info['expected_verdict'], 'verdict-matches-the-failing-pattern')
        _check_read_back(ex, _RST[0].formatter.template, templates)
        if v != Verbosity.SILENT:
            ex.check(_has_mark(text) == (not verdict), 'failure-mark-iff-the-result-is-false')
        # template sanity: every column and its highlight mask have the same number of rows
        for t in templates:
            if isinstance(t, TableTemplate):
                n_rows = {np.size(c) for c in t.columns} | {np.size(h) for h in t.highlights}
                ex.check(len(n_rows) == 1, 'columns-and-highlight-masks-have-the-same-length')
        # detailed tables of dataset comparisons: highlighted rows == failing bins, with their values
        if kind in ('equal', 'approx', 'student') and info['shape'] and v != Verbosity.SILENT:
            tabs = [t for t in templates if isinstance(t, TableTemplate)]
            if tabs:
                t = tabs[0]
                n = info['n']
                union = sorted({i for fl in info['failing'] for i in fl})
                refv = np.asarray(info['dsref'].value).reshape(-1)
                col_ref = [c for c, h in zip(t.columns, t.headers) if h in ('ref', 'v(ref)')]
                ok = len(col_ref) == 1
                ex.check(ok, 'table-has-the-reference-column')
                if ok:
                    shown = [float(x) for x in np.asarray(col_ref[0]).reshape(-1)]
                    rows_bins = [int(np.argmin(np.abs(refv - x))) for x in shown]
                    hl_rows = sorted({rows_bins[r] for h in t.highlights for r, f in enumerate(np.asarray(h).reshape(-1)) if f})
                    ex.check(hl_rows == union, 'highlighted-rows-are-exactly-the-failing-bins')
                    full = len(shown) == n
                    ex.check(full or sorted(rows_bins) == union, 'a-reduced-table-shows-exactly-the-failing-bins')
                    # each dataset's value column shows the value of the bin of that row
                    good = True
                    for d, ds in enumerate(info['datasets']):
                        cols = [c for c, h in zip(t.columns, t.headers) if h in (f'ds{d}', f'v(ds{d})')]
                        dv = np.asarray(ds.value).reshape(-1)
                        if len(cols) != 1 or [float(x) for x in np.asarray(cols[0]).reshape(-1)] != [float(dv[b]) for b in rows_bins]:
                            good = False
                    ex.check(good, 'rows-carry-the-values-of-their-bins')
                    # cell level: the verdict column of EACH dataset is highlighted exactly in the rows of ITS failing bins
                    cell_ok = True
                    for d in range(len(info['datasets'])):
                        suffix = f'({"ds%d" % d})?' if len(info['datasets']) > 1 else '?'
                        idx = [c for c, h in enumerate(t.headers) if h.endswith(suffix) and not h.startswith(('v(', 'σ(', 't('))]
                        if len(idx) != 1:
                            cell_ok = False
                            continue
                        mask = [bool(x) for x in np.asarray(t.highlights[idx[0]]).reshape(-1)]
                        if mask != [b in info['failing'][d] for b in rows_bins]:
                            cell_ok = False
                        shown_verdicts = [bool(x) for x in np.asarray(t.columns[idx[0]]).reshape(-1)]
                        if shown_verdicts != [b not in info['failing'][d] for b in rows_bins]:
                            cell_ok = False
                    ex.check(cell_ok, 'each-dataset-verdict-cell-is-marked-iff-that-comparison-failed')
                    # text level: the rows wrapped in :hl: are the rows of the failing bins
                    marked = [ln for ln in text.splitlines() if ':hl:' in ln and not ln.startswith('..')]
                    want = [b for b in rows_bins if b in union]
                    # the formatter walks the arrays in memory order: match rows and bins as multisets
                    left = list(want)
                    for ln in marked:
                        hit = [b for b in left if _row_has(ln, refv[b])]
                        if hit:
                            left.remove(hit[0])
                    ex.check(len(marked) == len(want) and not left,
                             'marked-text-rows-are-the-failing-bins-with-their-values')
        if kind == 'metadata' and v != Verbosity.SILENT:
            # detailed metadata tables (one column per sample): under the header of EACH sample stand the values of that sample, a
            # row carries a mark exactly when the samples differ on that key (on the cells the test recorded as different), a reduced table shows the failing keys
            md = info['md']
            ref = list(md)[0]
            for t in [t for t in templates if isinstance(t, TableTemplate) and len(t.headers) == 1 + len(md) and t.headers[0] == 'key']:
                keys = [str(k) for k in t.columns[0]]
                good = sorted(t.headers[1:]) == sorted(md) and len(set(keys)) == len(keys) and set(keys) <= set(md[ref])
                if good:
                    for c, name in enumerate(t.headers[1:], start=1):
                        cells = [str(x) for x in t.columns[c]]
                        marks = [bool(x) for x in np.asarray(t.highlights[c]).reshape(-1)]
                        # (which of the differing cells carries the mark is the test's own record: the comparison is made with the
                        # first sample in sorted order)
                        if cells != [str(md[name][k]) for k in keys] or marks != [not res.dict_res[k][name] for k in keys]:
                            good = False
                    for r, k in enumerate(keys):
                        row_marked = any(bool(np.asarray(t.highlights[c]).reshape(-1)[r]) for c in range(1, len(t.headers)))
                        if row_marked != (len({str(md[name][k]) for name in md}) > 1):
                            good = False
                    if any(bool(x) for x in np.asarray(t.highlights[0]).reshape(-1)):
                        good = False
                    if len(keys) < len(md[ref]) and sorted(keys) != sorted(info['bad_keys']):
                        good = False
                    if not set(info['bad_keys']) <= set(keys):
                        good = False
                ex.check(good, 'metadata-table-shows-each-sample-under-its-own-header-and-marks-the-differing-cells')
        if kind in ('stats_tasks', 'stats_tests') and v != Verbosity.SILENT:
            tabs = [t for t in templates if isinstance(t, TableTemplate)]
            if tabs:
                t = tabs[0]
                names = list(t.columns[0])
                hl = [bool(x) for x in np.asarray(t.highlights[0]).reshape(-1)]
                ok_name = 'DONE' if kind == 'stats_tasks' else 'SUCCESS'
                want = [nm not in (ok_name, 'total') for nm in names]
                ex.check(len(hl) == len(names) and hl == want, 'statistics-table-highlights-exactly-the-failure-rows')
                lines = [ln for ln in text.splitlines() if any(nm in ln for nm in names) and not ln.startswith('List')]
                ex.check(any('total' in ln for ln in lines), 'statistics-table-shows-the-total-row')
    return harness


def make_slice_harness():
    """TableTemplate slicing and joining keep columns and highlights aligned"""
    def harness(ex):
        from valjean.javert.templates import TableTemplate
        from valjean.javert.rst import RstTable
        vals = np.array([1.5, 2.5, 3.5])
        flags = [bool(ex.bool(f'hl{i}')) for i in range(3)]
        t = TableTemplate(np.array(['b0', 'b1', 'b2']), vals, headers=['bin', 'value'],
                          highlights=[np.array([False] * 3), np.array(flags)])
        bounds = [None, 0, 1, 2, 3, -1, -2]
        lo = bounds[ex.choice(len(bounds), 'start')]
        hi = bounds[ex.choice(len(bounds), 'stop')]
        op = ex.choice(3, 'op')
        # unit steps, strides and BACKWARD slices (the formatter walks arrays in memory order: rows are matched as a multiset)
        st = [None, 2, -1, -2][ex.choice(4, 'step')]
        sl = slice(lo, hi, st)
        if op == 0:
            s = t[sl]
            want_vals = list(vals[sl])
            want_flags = flags[sl]
        elif op == 1:
            s = t.copy()
            s.join(t[sl])
            want_vals = list(vals) + list(vals[sl])
            want_flags = flags + flags[sl]
        else:
            s = t[sl].copy()
            want_vals = list(vals[sl])
            want_flags = flags[sl]
        ok = [float(x) for x in s.columns[1]] == [float(x) for x in want_vals] and \
            all(np.size(h) == len(want_vals) for h in s.highlights) and \
            [bool(x) for x in np.asarray(s.highlights[1]).reshape(-1)] == want_flags
        ex.check(ok, 'sliced-or-joined-table-keeps-highlights-aligned-with-rows')
        if ok and want_vals:
            _check_read_back(ex, RstTable, [s])
            text = str(RstTable(s))
            marked = [ln for ln in text.splitlines() if ':hl:' in ln]
            flagged = [v for v, f in zip(want_vals, want_flags) if f]
            good = len(marked) == len(flagged)
            if good:
                # every marked row shows one flagged value, each flagged value once (multiset: the printing order of a
                # backward slice is the memory order of the underlying array)
                left = list(flagged)
                for ln in marked:
                    hit = [v for v in left if _row_has(ln, v)]
                    if not hit:
                        good = False
                        break
                    left.remove(hit[0])
            ex.check(good, 'formatted-sliced-table-marks-the-right-rows')
    return harness


def make_join_harness(kind):
    """the tables of TWO results of the same kind are joined (as a report that concatenates several campaigns does):
    the joined table holds the rows and highlights of the first followed by those of the second, and reads back"""
    def harness(ex):
        from valjean.javert.verbosity import Verbosity
        from valjean.javert.representation import Representation, TableRepresenter
        from valjean.javert.templates import TableTemplate
        from valjean.javert.rst import RstTable
        ra, _ = build_result(ex, kind, '1d', 1, True, tag='a')
        rb, _ = build_result(ex, kind, '1d', 1, True, tag='b')
        verbs = [Verbosity.DEFAULT, Verbosity.INTERMEDIATE, Verbosity.FULL_DETAILS]
        v = verbs[ex.choice(len(verbs), 'verbosity')]
        rep = Representation(TableRepresenter(), verbosity=v)
        ta = [t for t in rep(ra) if isinstance(t, TableTemplate)]
        tb = [t for t in rep(rb) if isinstance(t, TableTemplate)]
        for t1, t2 in zip(ta, tb):
            if list(t1.headers) != list(t2.headers):
                continue
            want_cols = [list(np.asarray(c1).reshape(-1)) + list(np.asarray(c2).reshape(-1)) for c1, c2 in zip(t1.columns, t2.columns)]
            want_hls = [[bool(x) for x in np.asarray(h1).reshape(-1)] + [bool(x) for x in np.asarray(h2).reshape(-1)]
                        for h1, h2 in zip(t1.highlights, t2.highlights)]
            j = t1.copy()
            try:
                j.join(t2)
            except Exception as e:      # noqa
                ex.check(False, 'join:tables-with-the-same-headers-can-be-joined', detail=f'{type(e).__name__}: {e}')
                continue
            got_cols = [list(np.asarray(c).reshape(-1)) for c in j.columns]
            got_hls = [[bool(x) for x in np.asarray(h).reshape(-1)] for h in j.highlights]
            ex.check(len(got_cols) == len(want_cols) and all(len(g) == len(w) and all(_same_cell(a, b) for a, b in zip(g, w))
                                                             for g, w in zip(got_cols, want_cols)),
                     'join:rows-of-the-first-table-then-rows-of-the-second')
            ex.check(got_hls == want_hls, 'join:highlights-stay-with-their-rows')
            _check_read_back(ex, RstTable, [j])
    return harness


def _job(kind, shape, nds, timeout_ms, seed=0):
    if shape == 'join':
        return run_sym('x', make_join_harness(kind), timeout_ms=timeout_ms, seed=seed, max_paths=3000000)
    h = make_slice_harness() if kind == 'slice' else make_harness(kind, shape, nds)
    return run_sym('x', h, timeout_ms=timeout_ms, seed=seed, max_paths=3000000)


def jobs(tier):
    out = [('slice-join', _job, dict(kind='slice', shape=None, nds=0, timeout_ms=20000))]
    for kind in KINDS:
        if kind in ('equal', 'approx', 'student', 'bonferroni', 'holm'):
            combos = [('1d', 1), ('1d', 2), ('2d', 1), ('2dF', 1)]
            if tier == 'thorough':
                combos += [('2d', 2), ('scalar', 1)]
        else:
            combos = [('1d', 1)]
        for shape, nds in combos:
            out.append((f'{kind}-{shape}-n{nds}', _job, dict(kind=kind, shape=shape, nds=nds, timeout_ms=20000)))
    for kind in ('student', 'bonferroni', 'metadata', 'stats_tasks', 'stats_tests', 'stats_bylabels'):
        out.append((f'{kind}-join', _job, dict(kind=kind, shape='join', nds=1, timeout_ms=20000)))
    return out


def replay(rp):
    for j in jobs('thorough') + jobs('quick'):
        if j[0] == rp['job']:
            p = j[2]
            h = make_slice_harness() if p['kind'] == 'slice' else make_join_harness(p['kind']) if p['shape'] == 'join' \
                else make_harness(p['kind'], p['shape'], p['nds'])
            return replay_sym(h, rp['inputs'])
    raise KeyError(rp['job'])
