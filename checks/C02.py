"""C02 -- run outcome depends on the graph and task results only, not on the schedule."""
import z3
from checks import sched
from checks.sched import Config, run_job
from engine.threadsym import props
from engine.threadsym.roles import KINDS
from engine.threadsym.bmc import BW

PID = 'C02'
LEVEL = 'model_checking'
TARGETS = sched.TARGETS
ASSUMPTIONS = sched.ASSUMPTIONS + ['empty initial environment',
                                   'specification F(graph, kinds): SKIPPED iff a hard dependency is FAILED/SKIPPED under F, else DONE iff do() '
                                   'returned a well-formed (update, DONE), FAILED for every other outcome kind; soft edges do not appear in F']
OUTSIDE = [x for x in sched.OUTSIDE if 're-use' not in x] + ['re-use of one backend/Scheduler OBJECT for several schedule() calls (a fresh Scheduler and backend per run, as the run command does; earlier runs on the same TASK objects are covered by two configurations)']
BOUNDS = dict(**{'quick': {'tasks': 2, 'graphs': 'all 3 labelled graphs on 2 tasks', 'workers': [1],
                                              'plus': '3-task chain, fan-in hard+soft, hard-then-soft chain with 1 worker',
                                              'outcomes': KINDS, 'depth': 'every run, first K = 22+11N+6W steps'},
                                    'thorough': {'tasks': '<= 3', 'graphs': 'all 27 labelled graphs on 3 tasks (W=1), 2-task graphs W<=2 (two workers: no-edge and hard-edge graphs only)',
                                                 'outcomes': KINDS, 'depth': 'W=1 and (<= 2 tasks or no soft edge): K = 22+11N+6W established by the unwinding query (every run is complete within K); otherwise first K steps of every run (unwinding query out of reach)'}})
EXPLANATION = ('extracted thread automata + z3 bounded model checking (QF_BV): at every terminated state of every interleaving the status map '
               'equals F(graph, outcomes) and no task was executed twice; counterexamples replayed on real threads')
extra_coverage = sched.extra_coverage
Q1 = 'a task is executed more than once'
Q2 = 'final status map differs from F(graph, outcomes)'
Q3 = 'the run never reaches a final state for every task: nothing can move while some thread has not finished'
NAMES = ['WAITING', 'PENDING', 'DONE', 'FAILED', 'SKIPPED']


def spec_py(cfg, kinds):
    memo = {}

    def F(i):
        if i not in memo:
            if any(F(j) in ('FAILED', 'SKIPPED') for j in props.hard_deps_of(cfg, i)):
                memo[i] = 'SKIPPED'
            else:
                memo[i] = 'DONE' if KINDS[kinds[i]] == 'done' else 'FAILED'
        return memo[i]
    return [F(i) for i in range(cfg.n)]


def confirm_twice(cfg, rp, kinds, extra):
    bad = [cfg.names[i] for i, c in enumerate(rp['exec_counts']) if c > 1]
    return f'executed more than once: {bad} (counts {rp["exec_counts"]})' if bad else None


def confirm_map(cfg, rp, kinds, extra):
    if rp.get('outcome') != 'returned':
        return None
    want = spec_py(cfg, kinds)
    got = []
    for i, n in enumerate(cfg.names):
        st = (rp['env'].get(n) or {}).get('status')
        got.append(getattr(st, 'name', repr(st)))
    cnt = rp['exec_counts']
    okc = all((c == 0) if w == 'SKIPPED' else (c == 1) for c, w in zip(cnt, want))
    if got != want or not okc:
        return f'final statuses {got} (executions {cnt}) but the graph and outcomes {[KINDS[k] for k in kinds]} give {want}'
    return None


def confirm_stuck(cfg, rp, kinds, extra):
    from checks import C03
    return C03.confirm(cfg, rp, kinds, extra)


CONFIRM = {Q1: confirm_twice, Q2: confirm_map, Q3: confirm_stuck}


def prop(an, prod):
    cfg = prod.cfg
    p = prod.pre
    F = props.spec_status(cfg, [p[f'kind{i}'] for i in range(cfg.n)])
    conds = []
    for i in range(cfg.n):
        conds.append(z3.And(p[f'p{i}'], p[f'h{i}_status'], p[f'v{i}_status'] == F[i],
                            z3.If(F[i] == props.SKIPPED, p[f'x{i}'] == 0, p[f'x{i}'] == 1)))
    good = z3.And(*conds)
    done = z3.And(prod.terminal_kind(0, 'END'), *[prod.terminal(t) for t in range(1, prod.T)])
    twice = z3.Or(*[p[f'x{i}'] >= 2 for i in range(cfg.n)])
    return {'init': lambda prod: props.init_common(prod, empty_env=True),
            'queries': [(Q1, lambda u: u.at(u.K, twice), confirm_twice),
                        # terminated states persist (stuttering): the last step sees the final map of every run that ended
                        (Q2, lambda u: u.at(u.K, z3.And(done, z3.Not(good))), confirm_map),
                        (Q3, lambda u: u.at(u.K, props.deadlock(prod)), confirm_stuck)]}


def _job(n, hard, soft, w, tier, prior=None, seed=0):
    return run_job(Config(n, hard, soft, w, prior=prior), prop, tier, seed)


def jobs(tier):
    # n2w2-h_-s10: its three queries took 51 min in a full thorough run (per-query budget 45 min): outside the thorough bound
    # quick tier: the two-worker configuration costs 8.5 min with 11 outcome kinds (3 queries); it stays in the thorough tier,
    # and C01's quick tier keeps two-worker configurations
    out = sched.standard_jobs(tier, _job, light=('n2w2-h10-s_',), skip_thorough=('n2w2-h_-s10',))
    # "depends on the graph and task results only": the same task objects were scheduled before, in this
    # process, under a DIFFERENT graph (one concrete warm-up run precedes the extraction)
    for (n, hard, soft, w, prior) in [(2, [], [(1, 0)], 1, ([(1, 0)], [])), (2, [(1, 0)], [], 1, ([], []))]:
        c = Config(n, hard, soft, w, prior=prior)
        out.append((sched.cfg_name(c), _job, dict(n=n, hard=hard, soft=soft, w=w, tier=tier, prior=prior)))
    # graphs with a nested (possibly empty) dependency graph as a node: the hard graph handed to the back end is the hard relation (symrun)
    out.append(('handed-graphs', sched._job_handed_graphs, dict(timeout_ms=20000)))
    return out


def replay(rp):
    import sys
    if rp['job'] == 'handed-graphs':
        from engine.runner import replay_sym
        return replay_sym(sched.handed_graphs_harness, rp['inputs'])
    return sched.generic_replay(sys.modules[__name__], rp)
