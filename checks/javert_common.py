"""Result builders and deep snapshots shared by C12 and C13 (engine symrun).

Cell VALUES are concrete distinct numbers (the formatting code needs real numbers); what is symbolic
(solver-chosen, forked) is the failing pattern -- which bins of which dataset differ --, the kind of
result, the number of datasets, the verbosity and the sequence of operations."""
import enum
import collections
import numpy as np

KINDS = ['equal', 'approx', 'student', 'bonferroni', 'holm', 'metadata', 'stats_tasks', 'stats_tests',
         'stats_bylabels', 'failed']
SHAPES = {'1d': (3,), '2d': (2, 2), '2dF': (2, 2), 'scalar': ()}


def build_result(ex, kind, shape_name='1d', nds=1, named=True, tag='', with_nan=False):
    """-> (result, info) where info['failing'] = per dataset list of failing flat bin indices (data kinds)"""
    from collections import OrderedDict
    from valjean.eponine.dataset import Dataset
    from valjean.gavroche.test import TestEqual, TestApproxEqual, TestResultFailed
    from valjean.gavroche.stat_tests.student import TestStudent
    from valjean.gavroche.stat_tests.bonferroni import TestBonferroni, TestHolmBonferroni
    info = {'kind': kind}
    if kind in ('equal', 'approx', 'student', 'bonferroni', 'holm'):
        shape = SHAPES[shape_name]
        n = int(np.prod(shape, dtype=int))
        ref = (np.arange(1, n + 1, dtype=float) * 1.5).reshape(shape)
        err = np.full(shape, 0.125)
        # array flavour (jobs that ask for it): plain / NaN in the first failing bin / big-endian arrays (read from a file)
        flavour = ex.choice(3, f'{tag}array-flavour') if (with_nan and shape) else 0
        big_endian = flavour == 2
        if big_endian:
            ref, err = ref.astype('>f8'), err.astype('>f8')
        fortran = shape_name.endswith('F')       # Fortran-ordered arrays (transposed views, loadtxt(unpack=True)...)
        if fortran:
            ref, err = np.asfortranarray(ref), np.asfortranarray(err)
        bins = OrderedDict()
        for ax, m in enumerate(shape):
            bins[f'ax{ax}'] = np.arange(m + 1, dtype=float) * (ax + 1)
        if not shape:
            ref, err = np.float64(ref), np.float64(err)
            bins = None
        dsref = Dataset(ref, err, bins=bins, name='ref' if named else '')
        dss, failing = [], []
        for d in range(nds):
            diffs = [ex.bool(f'{tag}diff{d}_{i}') for i in range(n)]
            fl = [i for i, b in enumerate(diffs) if bool(b)]
            v = np.array(ref, dtype=float, copy=True).reshape(-1) if shape else np.array([float(ref)])
            for i in fl:
                v[i] += 10.0 + d
            if flavour == 1 and d == 0 and fl:
                v[fl[0]] = np.nan          # a NaN cell fails every comparison: the failing pattern stays the same
            v = v.reshape(shape) if shape else np.float64(v[0])
            if big_endian:
                v = v.astype('>f8')
            if shape and fortran:
                v = np.asfortranarray(v)
            dss.append(Dataset(v, err.copy() if shape else np.float64(err), bins=bins, name=f'ds{d}' if named else ''))
            failing.append(fl)
        info.update(failing=failing, n=n, shape=shape, nds=nds, dsref=dsref, datasets=dss)
        if kind == 'equal':
            res = TestEqual(dsref, *dss, name='t-equal').evaluate()
        elif kind == 'approx':
            res = TestApproxEqual(dsref, *dss, name='t-approx').evaluate()
        else:
            st = TestStudent(dsref, *dss, name='t-student', alpha=0.01)
            if kind == 'student':
                res = st.evaluate()
            elif kind == 'bonferroni':
                res = TestBonferroni(name='t-bonf', test=st, alpha=0.01).evaluate()
            else:
                res = TestHolmBonferroni(name='t-holm', test=st, alpha=0.01).evaluate()
        info['expected_verdict'] = not any(failing)
        return res, info
    if kind == 'external':
        # a user-made result: its representation is a tuple of live templates (a table WITH units, a text, a plot)
        from valjean.javert.test_external import TestExternal
        from valjean.javert.templates import TableTemplate, TextTemplate, PlotTemplate, SubPlotElements, CurveElements
        ok = bool(ex.bool(f'{tag}external-success'))
        tab = TableTemplate(np.array([1.5, 2.5]), np.array(['a', 'b']), headers=['energy', 'name'], units=['MeV', ''],
                            highlights=[np.array([False, not ok]), np.array([False, False])])
        curve = CurveElements(values=np.array([1.0, 2.0]), bins=[np.array([0.0, 1.0, 2.0])], legend='c')
        plot = PlotTemplate(subplots=[SubPlotElements(curves=[curve], axnames=('x', 'y'))])
        info['expected_verdict'] = ok
        return TestExternal(tab, TextTemplate('some text'), plot, name='t-ext', success=ok).evaluate(), info
    if kind == 'failed':
        from valjean.gavroche.test import Test

        class _T(Test):
            def evaluate(self):
                raise NotImplementedError
        info['expected_verdict'] = False
        return TestResultFailed(_T(name='t-failed'), 'something went wrong'), info
    if kind == 'metadata':
        from valjean.gavroche.diagnostics.metadata import TestMetadata
        bad = [ex.bool(f'{tag}mdbad{i}') for i in range(2)]
        badc = [bool(b) for b in bad]
        flavour = ex.choice(3, f'{tag}mdflavour')      # numbers, or free text with a trailing / leading blank
        if flavour == 0:
            # sample names NOT in alphabetical order: the reference is the first one given
            md = {'zz-ref': {'a': 1, 'b': 2}, 'aa-new': {'a': 1 + (5 if badc[0] else 0), 'b': 2 + (5 if badc[1] else 0)}}
        else:
            pad = (lambda x: x + ' ') if flavour == 1 else (lambda x: ' ' + x)
            md = {'zz-ref': {'a': pad('JEFF-3.1.1'), 'b': pad('v 1')},
                  'aa-new': {'a': pad('ENDF-B7') if badc[0] else pad('JEFF-3.1.1'), 'b': pad('v 2') if badc[1] else pad('v 1')}}
        info.update(expected_verdict=not any(badc), bad_keys=[k for k, b in zip('ab', badc) if b], md=md)
        return TestMetadata(md, name='t-md').evaluate(), info
    if kind == 'stats_tasks':
        from valjean.gavroche.diagnostics.stats import TestStatsTasks
        from valjean.cosette.task import TaskStatus
        sts = [TaskStatus.DONE, TaskStatus.FAILED, TaskStatus.SKIPPED]
        chosen = [sts[ex.choice(3, f'{tag}tstatus{i}')] for i in range(2)]
        trs = [(['zz-task', 'aa-task'][i], {'status': s}) for i, s in enumerate(chosen)]      # non-alphabetical order
        info.update(expected_verdict=all(s == TaskStatus.DONE for s in chosen), statuses=chosen)
        return TestStatsTasks(name='t-stats', task_results=trs).evaluate(), info
    if kind in ('stats_tests', 'stats_bylabels'):
        from valjean.gavroche.diagnostics.stats import TestStatsTests, TestStatsTestsByLabels
        from valjean.gavroche.test import Test, TestResult

        class _T(Test):
            def evaluate(self):
                raise NotImplementedError

        class _R(TestResult):
            def __init__(self, test, v):
                super().__init__(test)
                self.v = v

            def __bool__(self):
                return self.v
        vs = [bool(ex.bool(f'{tag}verdict{i}')) for i in range(2)]
        # names observed in NON-alphabetical order (an in-place sort of the recorded lists would show)
        rs = [_R(_T(name=['zulu', 'alpha'][i], labels={'lab': f'v{i % 2}'}), v) for i, v in enumerate(vs)]
        trs = [('taskA', {'result': rs})]
        info.update(expected_verdict=all(vs), verdicts=vs)
        before = snap(rs)
        if kind == 'stats_tests':
            res = TestStatsTests(name='t-stats', task_results=trs).evaluate()
        else:
            res = TestStatsTestsByLabels(name='t-stats', task_results=trs, by_labels=('lab',)).evaluate()
        info['evaluation_left_the_observed_results_unchanged'] = snap(rs) == before
        return res, info
    raise KeyError(kind)


# ----------------------------------------------------------------------------- deep snapshot
def snap(x, depth=0, seen=None):
    """hashable-free structural snapshot: arrays by content, dict key sets included, objects by attributes"""
    seen = {} if seen is None else seen
    if depth > 12:
        return '...'
    if x is None or isinstance(x, (bool, int, float, str, bytes)):
        return ('v', type(x).__name__, repr(x))
    if isinstance(x, enum.Enum):
        return ('enum', repr(x))
    if isinstance(x, np.ma.MaskedArray):
        return ('ma', x.shape, x.dtype.str, np.ma.getdata(x).tobytes(), np.ma.getmaskarray(x).tobytes())
    if isinstance(x, np.ndarray):
        if x.dtype == object:
            return ('objarr', x.shape, tuple(snap(v, depth + 1, seen) for v in x.ravel()))
        return ('arr', x.shape, x.dtype.str, x.tobytes())
    if isinstance(x, np.generic):
        return ('np', x.dtype.str, x.tobytes())
    if id(x) in seen:
        return ('ref', seen[id(x)])
    seen[id(x)] = len(seen)
    if isinstance(x, dict):
        extra = ('defaultdict', repr(x.default_factory)) if isinstance(x, collections.defaultdict) else ()
        return ('dict', type(x).__name__, extra, tuple((snap(k, depth + 1, seen), snap(v, depth + 1, seen)) for k, v in x.items()))
    if isinstance(x, (list, tuple)):
        return (type(x).__name__, tuple(snap(v, depth + 1, seen) for v in x))
    if isinstance(x, (set, frozenset)):
        return ('set', tuple(sorted(repr(snap(v, depth + 1, seen)) for v in x)))
    if callable(x) and not hasattr(x, '__dict__'):
        return ('callable', getattr(x, '__qualname__', repr(x)))
    d = getattr(x, '__dict__', None)
    if d is None:
        return ('obj', type(x).__name__, repr(x))
    return ('obj', type(x).__name__, tuple((k, snap(v, depth + 1, seen)) for k, v in sorted(d.items())))


def observe(res):
    """the observable read-only outputs of a result (part of the snapshot)"""
    out = {'bool': bool(res)}
    for name in ('oracles', 'nb_missing_labels'):
        f = getattr(res, name, None)
        if callable(f):
            try:
                out[name] = snap(f())
            except Exception as e:      # noqa
                out[name] = ('raises', type(e).__name__)
    for name in ('nb_rejected', 'rejected_proportion'):
        if hasattr(type(res), name):
            try:
                out[name] = snap(getattr(res, name))
            except Exception as e:      # noqa
                out[name] = ('raises', type(e).__name__)
    return out


def full_snapshot(res):
    o = observe(res)
    return (snap(res), tuple(sorted((k, repr(v)) for k, v in o.items())))
